(* The element formula of the crack-shape independent models over an abstract
   power function, and the aggregation over elements, tubes and panels (reals). *)
From Coq Require Import Reals List Lra.
Import ListNotations.
Open Scope R_scope.

Section Laws.
(* pw x m stands for x^m on x >= 0, m > 0 *)
Variable pw : R -> R -> R.
Hypothesis pw_nonneg : forall x m, 0 <= x -> 0 <= pw x m.
Hypothesis pw_zero : forall m, pw 0 m = 0.
Hypothesis pw_mono : forall x y m, 0 <= x -> x <= y -> pw x m <= pw y m.
Hypothesis pw_mult : forall l x m, 0 <= l -> 0 <= x -> pw (l * x) m = pw l m * pw x m.
Hypothesis pw_ge1 : forall l m, 1 <= l -> 1 <= pw l m.

Definition pos (x : R) : R := Rmax x 0.

Fixpoint sumR (l : list R) : R := match l with [] => 0 | x :: r => x + sumR r end.

(* PIA at zero service time: log R = - k * V * sum_i (max(p_i, 0))^m *)
Definition pia (k V m : R) (p : list R) : R := - k * V * sumR (map (fun x => pw (pos x) m) p).

Lemma pos_nonneg x : 0 <= pos x.
Proof. unfold pos. apply Rmax_r. Qed.

Lemma sum_pw_nonneg m p : 0 <= sumR (map (fun x => pw (pos x) m) p).
Proof. induction p as [|x r IH]; cbn; [lra|]. pose proof (pw_nonneg (pos x) m (pos_nonneg x)). lra. Qed.

Theorem pia_nonpos k V m p : 0 <= k -> 0 <= V -> pia k V m p <= 0.
Proof.
  intros Hk HV. unfold pia. pose proof (sum_pw_nonneg m p).
  assert (0 <= k * V * sumR (map (fun x => pw (pos x) m) p)) by (apply Rmult_le_pos; [apply Rmult_le_pos|]; assumption).
  lra.
Qed.

Theorem reliability_in_0_1 x : x <= 0 -> 0 < exp x <= 1.
Proof.
  intros H. split; [apply exp_pos|].
  destruct (Req_dec x 0) as [-> | N]; [rewrite exp_0; lra|].
  left. rewrite <- exp_0. apply exp_increasing. lra.
Qed.

Theorem pia_compressive_is_zero k V m p : (forall x, In x p -> x <= 0) -> pia k V m p = 0.
Proof.
  intros H. unfold pia.
  assert (E : sumR (map (fun x => pw (pos x) m) p) = 0).
  { induction p as [|x r IH]; cbn; [reflexivity|].
    assert (pos x = 0) by (unfold pos; apply Rmax_right; apply H; left; reflexivity).
    rewrite H0, pw_zero, IH; [lra|]. intros y Hy. apply H. right. exact Hy. }
  rewrite E. ring.
Qed.

Theorem pia_volume_linear k V V' m p : pia k (V + V') m p = pia k V m p + pia k V' m p.
Proof. unfold pia. ring. Qed.

Lemma pos_scale l x : 0 <= l -> pos (l * x) = l * pos x.
Proof.
  intros Hl. unfold pos. destruct (Rle_dec x 0) as [N | P].
  - rewrite (Rmax_right x 0 N). rewrite Rmax_right; [ring|]. rewrite <- (Rmult_0_r l). apply Rmult_le_compat_l; assumption.
  - assert (0 <= x) by lra. rewrite (Rmax_left x 0 H). rewrite Rmax_left; [ring|]. apply Rmult_le_pos; assumption.
Qed.

(* zero service time: scaling the stresses by l scales log R by l^m *)
Theorem pia_homogeneous k V m p l : 0 <= l -> pia k V m (map (Rmult l) p) = pw l m * pia k V m p.
Proof.
  intros Hl. unfold pia.
  assert (E : sumR (map (fun x => pw (pos x) m) (map (Rmult l) p)) = pw l m * sumR (map (fun x => pw (pos x) m) p)).
  { induction p as [|x r IH]; cbn; [ring|]. rewrite IH, (pos_scale l x Hl), (pw_mult l (pos x) m Hl (pos_nonneg x)). ring. }
  rewrite E. ring.
Qed.

(* scaling stresses up never increases the reliability *)
Theorem pia_scale_antitone k V m p l : 0 <= k -> 0 <= V -> 1 <= l -> pia k V m (map (Rmult l) p) <= pia k V m p.
Proof.
  intros Hk HV Hl. rewrite pia_homogeneous by lra.
  pose proof (pw_ge1 l m Hl). pose proof (pia_nonpos k V m p Hk HV).
  set (P := pia k V m p) in *. set (L := pw l m) in *.
  assert (0 <= (L - 1) * (- P)) by (apply Rmult_le_pos; lra). lra.
Qed.
End Laws.

(* ---- aggregation -------------------------------------------------------------------------- *)
(* panel reliability = product of tube reliabilities raised to their multipliers;
   overall = product over panels *)
Fixpoint prodR (l : list R) : R := match l with [] => 1 | x :: r => x * prodR r end.

Theorem exp_weighted_sum (l : list (nat * R)) :
  exp (sumR (map (fun mx => INR (fst mx) * snd mx) l)) = prodR (map (fun mx => exp (snd mx) ^ fst mx) l).
Proof.
  induction l as [|[m x] r IH]; cbn [map sumR prodR fst snd]; [apply exp_0|].
  rewrite exp_plus, IH. f_equal.
  induction m as [|m IHm]; [cbn; rewrite Rmult_0_l; apply exp_0|].
  rewrite S_INR. replace ((INR m + 1) * x) with (INR m * x + x) by ring. rewrite exp_plus, IHm. cbn. ring.
Qed.

Theorem exp_sum (l : list R) : exp (sumR l) = prodR (map exp l).
Proof. induction l as [|x r IH]; cbn; [apply exp_0 | rewrite exp_plus, IH; reflexivity]. Qed.

(* ---- all eight models at zero service time ------------------------------------------------- *)
(* An element's log-reliability is  - c * V * sum over the orientation grid of
   w(o) * (max(se(p, o), 0))^m, where se is the model's equivalent stress of the
   principal values p on the crack orientation o.  Everything the property says
   about scaling follows from se being positively homogeneous of degree one. *)
Section Orientation.
Variable pw : R -> R -> R.
Hypothesis pw_nonneg : forall x m, 0 <= x -> 0 <= pw x m.
Hypothesis pw_mult : forall l x m, 0 <= l -> 0 <= x -> pw (l * x) m = pw l m * pw x m.
Hypothesis pw_ge1 : forall l m, 1 <= l -> 1 <= pw l m.

Variable O : Type.                                   (* orientations of the quadrature grid *)
Variable se : R * R * R -> O -> R.                   (* equivalent stress *)
Definition scale3 (l : R) (p : R * R * R) : R * R * R := let '(a, b, c) := p in (l * a, l * b, l * c).
Hypothesis se_homogeneous : forall l p o, 0 <= l -> se (scale3 l p) o = l * se p o.

Definition orient_sum (m : R) (p : R * R * R) (grid : list (O * R)) : R :=
  sumR (map (fun ow => snd ow * pw (pos (se p (fst ow))) m) grid).
Definition logR (c V m : R) (p : R * R * R) (grid : list (O * R)) : R := - c * V * orient_sum m p grid.

Lemma orient_sum_nonneg m p grid : (forall ow, In ow grid -> 0 <= snd ow) -> 0 <= orient_sum m p grid.
Proof.
  unfold orient_sum. induction grid as [|[o w] r IH]; intros Hw; cbn [map sumR fst snd]; [lra|].
  assert (0 <= w) by (apply (Hw (o, w)); left; reflexivity).
  pose proof (pw_nonneg (pos (se p o)) m (pos_nonneg _)).
  assert (0 <= w * pw (pos (se p o)) m) by (apply Rmult_le_pos; assumption).
  specialize (IH (fun ow H' => Hw ow (or_intror H'))). lra.
Qed.

Theorem logR_nonpos c V m p grid : 0 <= c -> 0 <= V -> (forall ow, In ow grid -> 0 <= snd ow) -> logR c V m p grid <= 0.
Proof.
  intros Hc HV Hw. unfold logR. pose proof (orient_sum_nonneg m p grid Hw).
  assert (0 <= c * V * orient_sum m p grid) by (apply Rmult_le_pos; [apply Rmult_le_pos|]; assumption). lra.
Qed.

Theorem logR_volume_linear c V V' m p grid : logR c (V + V') m p grid = logR c V m p grid + logR c V' m p grid.
Proof. unfold logR. ring. Qed.

Theorem logR_homogeneous c V m p grid l : 0 <= l -> logR c V m (scale3 l p) grid = pw l m * logR c V m p grid.
Proof.
  intros Hl. unfold logR.
  assert (E : orient_sum m (scale3 l p) grid = pw l m * orient_sum m p grid).
  { unfold orient_sum. induction grid as [|[o w] r IH]; cbn [map sumR fst snd]; [ring|].
    rewrite IH, (se_homogeneous l p o Hl), (pos_scale l _ Hl), (pw_mult l _ m Hl (pos_nonneg _)). ring. }
  rewrite E. ring.
Qed.

Theorem logR_scale_antitone c V m p grid l :
  0 <= c -> 0 <= V -> (forall ow, In ow grid -> 0 <= snd ow) -> 1 <= l -> logR c V m (scale3 l p) grid <= logR c V m p grid.
Proof.
  intros Hc HV Hw Hl. rewrite logR_homogeneous by lra.
  pose proof (pw_ge1 l m Hl). pose proof (logR_nonpos c V m p grid Hc HV Hw).
  set (P := logR c V m p grid) in *. set (L := pw l m) in *.
  assert (0 <= (L - 1) * (- P)) by (apply Rmult_le_pos; lra). lra.
Qed.
End Orientation.

(* ---- the equivalent stresses of the models are positively homogeneous ------------------------ *)
(* on a crack whose normal has direction cosines with squares (c1, c2, c3) *)
Definition sig_n (p : R * R * R) (o : R * R * R) : R := let '(a, b, c) := p in let '(c1, c2, c3) := o in a * c1 + b * c2 + c * c3.
Definition sig_tot2 (p : R * R * R) (o : R * R * R) : R :=
  let '(a, b, c) := p in let '(c1, c2, c3) := o in (a * a) * c1 + (b * b) * c2 + (c * c) * c3.
Definition tau (p o : R * R * R) : R := sqrt (sig_tot2 p o - sig_n p o * sig_n p o).

Lemma sqrt_scale l x : 0 <= l -> sqrt (l * l * x) = l * sqrt x.
Proof.
  intros Hl. destruct (Rle_dec 0 x) as [P | N].
  - rewrite sqrt_mult by (try apply Rmult_le_pos; assumption). rewrite sqrt_square by exact Hl. reflexivity.
  - assert (x <= 0) by lra. rewrite (sqrt_neg_0 x H), Rmult_0_r. apply sqrt_neg_0.
    assert (0 <= l * l) by (apply Rmult_le_pos; assumption).
    replace (l * l * x) with (- ((l * l) * (- x))) by ring.
    assert (0 <= (l * l) * (- x)) by (apply Rmult_le_pos; lra). lra.
Qed.

Lemma sig_n_scale l p o : sig_n (scale3 l p) o = l * sig_n p o.
Proof. destruct p as [[a b] c], o as [[c1 c2] c3]. unfold sig_n, scale3. ring. Qed.

Lemma tau_scale l p o : 0 <= l -> tau (scale3 l p) o = l * tau p o.
Proof.
  intros Hl. unfold tau. rewrite sig_n_scale. rewrite <- (sqrt_scale l _ Hl). f_equal.
  destruct p as [[a b] c], o as [[c1 c2] c3]. unfold sig_tot2, sig_n, scale3. ring.
Qed.

(* MTS (Griffith: b = 1; penny-shaped: b = 1/(1 - nu/2)) and the Shetty mixed-mode models
   (Griffith: b = 2/cbar; penny-shaped: b = 4/(cbar (2 - nu))) *)
Definition se_half (b : R) (p o : R * R * R) : R := / 2 * (sig_n p o + sqrt (sig_n p o * sig_n p o + (b * tau p o) * (b * tau p o))).
(* coplanar strain energy (Griffith: b = 1; penny-shaped: b = 1/(1 - nu/2)) *)
Definition se_cse (b : R) (p o : R * R * R) : R := sqrt (sig_n p o * sig_n p o + (b * tau p o) * (b * tau p o)).
(* normal stress averaging (WNTSA) *)
Definition se_normal (p o : R * R * R) : R := sig_n p o.

Theorem se_cse_homogeneous b l p o : 0 <= l -> se_cse b (scale3 l p) o = l * se_cse b p o.
Proof.
  intros Hl. unfold se_cse. rewrite sig_n_scale, (tau_scale l p o Hl), <- (sqrt_scale l _ Hl). f_equal. ring.
Qed.

Theorem se_half_homogeneous b l p o : 0 <= l -> se_half b (scale3 l p) o = l * se_half b p o.
Proof.
  intros Hl. unfold se_half. fold (se_cse b (scale3 l p) o) (se_cse b p o).
  rewrite se_cse_homogeneous by exact Hl. rewrite sig_n_scale. ring.
Qed.

Theorem se_normal_homogeneous l p o : 0 <= l -> se_normal (scale3 l p) o = l * se_normal p o.
Proof. intros _. apply sig_n_scale. Qed.

(* a purely compressive state has no tensile normal stress on any plane, so the averaged normal
   stress model (and PIA) gives exactly reliability one *)
Theorem compressive_no_tensile_normal p o :
  (let '(a, b, c) := p in a <= 0 /\ b <= 0 /\ c <= 0) -> (let '(c1, c2, c3) := o in 0 <= c1 /\ 0 <= c2 /\ 0 <= c3) ->
  pos (se_normal p o) = 0.
Proof.
  destruct p as [[a b] c], o as [[c1 c2] c3]. intros (Ha & Hb & Hc) (H1 & H2 & H3).
  unfold pos, se_normal, sig_n. apply Rmax_right.
  assert (a * c1 <= 0) by (rewrite <- (Rmult_0_l c1); apply Rmult_le_compat_r; assumption).
  assert (b * c2 <= 0) by (rewrite <- (Rmult_0_l c2); apply Rmult_le_compat_r; assumption).
  assert (c * c3 <= 0) by (rewrite <- (Rmult_0_l c3); apply Rmult_le_compat_r; assumption).
  lra.
Qed.

(* ---- service time ------------------------------------------------------------
   The time-dependent branch of every model replaces the peak (principal or equivalent) stress smax of a load
   cycle by   s0(t) = ((smax^N g t) / B + smax^(N-2))^(1/(N-2)),   g = (1/T) int (s/smax)^N dt >= 0 the cycle
   factor, N > 2 and B > 0 the fatigue parameters, t the service time, before raising it to the Weibull modulus. *)
Section Time.
Variable pw : R -> R -> R.
Hypothesis pw_nonneg : forall x m, 0 <= x -> 0 <= pw x m.
Hypothesis pw_mono : forall x y m, 0 <= x -> x <= y -> pw x m <= pw y m.
Hypothesis pw_inv : forall x a, 0 <= x -> 0 < a -> pw (pw x a) (/ a) = x.

Definition sig0 (N B g t smax : R) : R := pw (pw smax N * g * t / B + pw smax (N - 2)) (/ (N - 2)).

Lemma growth_nonneg N B g t smax : 0 <= smax -> 0 <= g -> 0 < B -> 0 <= t -> 0 <= pw smax N * g * t / B.
Proof.
  intros Hs Hg HB Ht. unfold Rdiv. apply Rmult_le_pos; [|left; apply Rinv_0_lt_compat; exact HB].
  apply Rmult_le_pos; [apply Rmult_le_pos|]; [apply pw_nonneg; exact Hs|exact Hg|exact Ht].
Qed.

(* at zero service time the peak stress itself is used *)
Theorem sig0_zero_time N B g smax : 0 <= smax -> 2 < N -> sig0 N B g 0 smax = smax.
Proof.
  intros Hs HN. unfold sig0.
  replace (pw smax N * g * 0 / B + pw smax (N - 2)) with (pw smax (N - 2)) by (unfold Rdiv; ring).
  apply pw_inv; lra.
Qed.

(* it grows with the service time ... *)
Theorem sig0_mono_time N B g t t' smax :
  0 <= smax -> 0 <= g -> 0 < B -> 0 <= t -> t <= t' -> sig0 N B g t smax <= sig0 N B g t' smax.
Proof.
  intros Hs Hg HB Ht Htt. unfold sig0.
  pose proof (growth_nonneg N B g t smax Hs Hg HB Ht) as G0.
  pose proof (pw_nonneg smax (N - 2) Hs) as P0.
  apply pw_mono; [lra|].
  apply Rplus_le_compat_r. unfold Rdiv. apply Rmult_le_compat_r; [left; apply Rinv_0_lt_compat; exact HB|].
  apply Rmult_le_compat_l; [|exact Htt]. apply Rmult_le_pos; [apply pw_nonneg; exact Hs|exact Hg].
Qed.

(* ... and is never below the peak stress *)
Theorem sig0_ge_peak N B g t smax : 0 <= smax -> 0 <= g -> 0 < B -> 0 <= t -> 2 < N -> smax <= sig0 N B g t smax.
Proof.
  intros Hs Hg HB Ht HN. rewrite <- (sig0_zero_time N B g smax Hs HN) at 1.
  apply sig0_mono_time; try assumption; lra.
Qed.

Lemma sig0_nonneg N B g t smax : 0 <= smax -> 0 <= g -> 0 < B -> 0 <= t -> 0 <= sig0 N B g t smax.
Proof.
  intros Hs Hg HB Ht. unfold sig0. apply pw_nonneg.
  pose proof (growth_nonneg N B g t smax Hs Hg HB Ht). pose proof (pw_nonneg smax (N - 2) Hs). lra.
Qed.

(* the cycle factor is a non-negative combination of non-negative terms *)
Lemma cycle_factor_nonneg (N T : R) (wr : list (R * R)) :
  0 < T -> (forall x, In x wr -> 0 <= fst x /\ 0 <= snd x) ->
  0 <= sumR (map (fun x => fst x * pw (snd x) N) wr) / T.
Proof.
  intros HT H. unfold Rdiv. apply Rmult_le_pos; [|left; apply Rinv_0_lt_compat; exact HT].
  induction wr as [|x r IH]; cbn; [lra|].
  assert (0 <= fst x * pw (snd x) N).
  { destruct (H x (or_introl eq_refl)) as [A B]. apply Rmult_le_pos; [exact A|apply pw_nonneg; exact B]. }
  assert (0 <= sumR (map (fun x0 => fst x0 * pw (snd x0) N) r)) by (apply IH; intros y Hy; apply H; right; exact Hy).
  lra.
Qed.

(* log-reliability of one element after service time t: the points carry (peak stress, cycle factor) *)
Definition logR_t (k V m N B t : R) (pg : list (R * R)) : R :=
  - k * V * sumR (map (fun sg => pw (sig0 N B (snd sg) t (fst sg)) m) pg).

(* a longer service time never increases the reliability *)
Theorem logR_time_antitone k V m N B t t' pg :
  0 <= k -> 0 <= V -> 0 < B -> 0 <= t -> t <= t' ->
  (forall sg, In sg pg -> 0 <= fst sg /\ 0 <= snd sg) ->
  logR_t k V m N B t' pg <= logR_t k V m N B t pg.
Proof.
  intros Hk HV HB Ht Htt H. unfold logR_t.
  assert (S : sumR (map (fun sg => pw (sig0 N B (snd sg) t (fst sg)) m) pg) <=
              sumR (map (fun sg => pw (sig0 N B (snd sg) t' (fst sg)) m) pg)).
  { induction pg as [|x r IH]; cbn; [lra|].
    destruct (H x (or_introl eq_refl)) as [A Bq].
    assert (pw (sig0 N B (snd x) t (fst x)) m <= pw (sig0 N B (snd x) t' (fst x)) m).
    { apply pw_mono; [apply sig0_nonneg; assumption|apply sig0_mono_time; assumption]. }
    assert (sumR (map (fun sg => pw (sig0 N B (snd sg) t (fst sg)) m) r) <=
            sumR (map (fun sg => pw (sig0 N B (snd sg) t' (fst sg)) m) r)) by (apply IH; intros y Hy; apply H; right; exact Hy).
    lra. }
  assert (0 <= k * V) by (apply Rmult_le_pos; assumption).
  assert (k * V * sumR (map (fun sg => pw (sig0 N B (snd sg) t (fst sg)) m) pg) <=
          k * V * sumR (map (fun sg => pw (sig0 N B (snd sg) t' (fst sg)) m) pg)) by (apply Rmult_le_compat_l; assumption).
  lra.
Qed.

(* at zero service time it is the static law on the peak stresses *)
Theorem logR_zero_time k V m N B pg :
  2 < N -> (forall sg, In sg pg -> 0 <= fst sg) ->
  logR_t k V m N B 0 pg = - k * V * sumR (map (fun sg => pw (fst sg) m) pg).
Proof.
  intros HN H. unfold logR_t. f_equal.
  induction pg as [|x r IH]; cbn; [reflexivity|].
  rewrite (sig0_zero_time N B (snd x) (fst x) (H x (or_introl eq_refl)) HN).
  f_equal. apply IH. intros y Hy. apply H. right. exact Hy.
Qed.

End Time.
