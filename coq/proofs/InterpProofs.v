From Coq Require Import QArith Qabs Qround List Bool ZArith Lia Lqa Qminmax.
From SV Require Import model.Interp.
Import ListNotations.
Open Scope Q_scope.

(* ---- one cell ----------------------------------------------------------- *)
Lemma lin_left x0 y0 x1 y1 : x0 < x1 -> lin x0 y0 x1 y1 x0 == y0.
Proof. intros H. unfold lin. field. lra. Qed.

Lemma lin_right x0 y0 x1 y1 : x0 < x1 -> lin x0 y0 x1 y1 x1 == y1.
Proof. intros H. unfold lin. field. lra. Qed.

Lemma weight_range x0 x1 x : x0 < x1 -> x0 <= x <= x1 -> 0 <= (x - x0) / (x1 - x0) <= 1.
Proof.
  intros H [H0 H1]. split.
  - apply Qle_shift_div_l; lra.
  - apply Qle_shift_div_r; lra.
Qed.

Lemma lin_between x0 y0 x1 y1 x : x0 < x1 -> x0 <= x <= x1 ->
  Qmin y0 y1 <= lin x0 y0 x1 y1 x <= Qmax y0 y1.
Proof.
  intros H Hx. unfold lin.
  pose proof (weight_range x0 x1 x H Hx) as [W0 W1].
  set (w := (x - x0) / (x1 - x0)) in *.
  destruct (Qlt_le_dec y0 y1) as [Hy | Hy].
  - rewrite (Q.min_l y0 y1), (Q.max_r y0 y1) by lra. split; nra.
  - rewrite (Q.min_r y0 y1), (Q.max_l y0 y1) by lra. split; nra.
Qed.

Lemma lin_compat x0 y0 x1 y1 x x' : x == x' -> lin x0 y0 x1 y1 x == lin x0 y0 x1 y1 x'.
Proof. intros H. unfold lin. rewrite H. reflexivity. Qed.

(* ---- strictly increasing grids ----------------------------------------- *)
Fixpoint increasing (xs : list Q) : Prop :=
  match xs with
  | x0 :: ((x1 :: _) as r) => x0 < x1 /\ increasing r
  | _ => True
  end.

Fixpoint increasingb (xs : list Q) : bool :=
  match xs with
  | x0 :: ((x1 :: _) as r) => negb (Qle_bool x1 x0) && increasingb r
  | _ => true
  end.

Lemma increasingb_sound xs : increasingb xs = true -> increasing xs.
Proof.
  induction xs as [|x0 [|x1 r] IH]; cbn [increasingb increasing]; auto.
  intros H. apply andb_prop in H. destruct H as [H1 H2]. split.
  - apply negb_true_iff in H1. apply Qnot_le_lt. intros C. apply Qle_bool_iff in C. congruence.
  - apply IH. exact H2.
Qed.

Lemma increasing_head_lt xs x0 : increasing (x0 :: xs) ->
  forall i, (i < length xs)%nat -> x0 < nth i xs 0.
Proof.
  revert x0. induction xs as [|x1 r IH]; intros x0 H i Hi; cbn [length] in Hi; [lia|].
  destruct H as [H01 Hr]. destruct i as [|i]; cbn [nth]; [exact H01|].
  apply Qlt_trans with x1; [exact H01|]. apply IH; [exact Hr | lia].
Qed.

Lemma interp1_cons2 x0 x1 xr y0 y1 yr x :
  interp1 (x0 :: x1 :: xr) (y0 :: y1 :: yr) x =
  match xr with
  | [] => lin x0 y0 x1 y1 x
  | _ => if Qle_bool x x1 then lin x0 y0 x1 y1 x else interp1 (x1 :: xr) (y1 :: yr) x
  end.
Proof. reflexivity. Qed.

Lemma Qle_bool_compat_l x x' y : x == x' -> Qle_bool x y = Qle_bool x' y.
Proof.
  intros H. destruct (Qle_bool x y) eqn:E1, (Qle_bool x' y) eqn:E2; auto.
  - apply Qle_bool_iff in E1. rewrite H in E1. apply Qle_bool_iff in E1. congruence.
  - apply Qle_bool_iff in E2. rewrite <- H in E2. apply Qle_bool_iff in E2. congruence.
Qed.

Lemma interp1_compat xs : forall ys x x', x == x' -> interp1 xs ys x == interp1 xs ys x'.
Proof.
  induction xs as [|x0 xs IH]; intros ys x x' H; [reflexivity|].
  destruct ys as [|y0 ys]; [reflexivity|].
  destruct xs as [|x1 xr]; [reflexivity|].
  destruct ys as [|y1 yr]; [reflexivity|].
  rewrite !interp1_cons2.
  destruct xr as [|x2 xr'].
  - apply lin_compat; exact H.
  - rewrite (Qle_bool_compat_l x x' x1 H). destruct (Qle_bool x' x1).
    + apply lin_compat; exact H.
    + apply IH; exact H.
Qed.

(* stored datum at a grid point *)
Lemma interp1_grid_exact xs : forall ys i,
  increasing xs -> length ys = length xs -> (2 <= length xs)%nat -> (i < length xs)%nat ->
  interp1 xs ys (nth i xs 0) == nth i ys 0.
Proof.
  induction xs as [|x0 xs IH]; intros ys i Hinc Hlen H2 Hi; cbn [length] in *; try lia.
  destruct xs as [|x1 xr]; cbn [length] in *; try lia.
  destruct ys as [|y0 [|y1 yr]]; cbn [length] in Hlen; try lia.
  destruct Hinc as [H01 Hinc].
  rewrite interp1_cons2. destruct xr as [|x2 xr'].
  - (* last cell *)
    destruct i as [|[|i]]; cbn [nth]; cbn [length] in Hi; try lia.
    + apply lin_left; exact H01.
    + apply lin_right; exact H01.
  - destruct i as [|[|i]].
    + cbn [nth]. assert (E : Qle_bool x0 x1 = true) by (apply Qle_bool_iff; lra). rewrite E.
      apply lin_left; exact H01.
    + cbn [nth]. assert (E : Qle_bool x1 x1 = true) by (apply Qle_bool_iff; lra). rewrite E.
      apply lin_right; exact H01.
    + change (nth (S (S i)) (x0 :: x1 :: x2 :: xr') 0) with (nth i (x2 :: xr') 0).
      change (nth (S (S i)) (y0 :: y1 :: yr) 0) with (nth i yr 0).
      assert (Hlt : x1 < nth i (x2 :: xr') 0).
      { apply increasing_head_lt; [exact Hinc | cbn [length] in *; lia]. }
      assert (E : Qle_bool (nth i (x2 :: xr') 0) x1 = false).
      { destruct (Qle_bool (nth i (x2 :: xr') 0) x1) eqn:E; auto.
        apply Qle_bool_iff in E. lra. }
      rewrite E.
      change (nth i (x2 :: xr') 0) with (nth (S i) (x1 :: x2 :: xr') 0).
      change (nth i yr 0) with (nth (S i) (y1 :: yr) 0).
      apply (IH (y1 :: yr) (S i)); cbn [length] in *; try lia. exact Hinc.
Qed.

(* between the neighbouring data inside a cell *)
Lemma interp1_between xs : forall ys i x,
  increasing xs -> length ys = length xs -> (S i < length xs)%nat ->
  nth i xs 0 <= x <= nth (S i) xs 0 ->
  Qmin (nth i ys 0) (nth (S i) ys 0) <= interp1 xs ys x <= Qmax (nth i ys 0) (nth (S i) ys 0).
Proof.
  induction xs as [|x0 xs IH]; intros ys i x Hinc Hlen Hi Hx; cbn [length] in *; try lia.
  destruct xs as [|x1 xr]; cbn [length] in *; try lia.
  destruct ys as [|y0 [|y1 yr]]; cbn [length] in Hlen; try lia.
  destruct Hinc as [H01 Hinc].
  rewrite interp1_cons2. destruct xr as [|x2 xr'].
  - destruct i as [|i]; cbn [length] in Hi; try lia. cbn [nth] in *.
    apply lin_between; assumption.
  - destruct i as [|i].
    + cbn [nth] in *. assert (E : Qle_bool x x1 = true) by (apply Qle_bool_iff; lra). rewrite E.
      apply lin_between; assumption.
    + change (nth (S i) (x0 :: x1 :: x2 :: xr') 0) with (nth i (x1 :: x2 :: xr') 0) in Hx.
      change (nth (S (S i)) (x0 :: x1 :: x2 :: xr') 0) with (nth (S i) (x1 :: x2 :: xr') 0) in Hx.
      change (nth (S i) (y0 :: y1 :: yr) 0) with (nth i (y1 :: yr) 0).
      change (nth (S (S i)) (y0 :: y1 :: yr) 0) with (nth (S i) (y1 :: yr) 0).
      destruct (Qle_bool x x1) eqn:E.
      * apply Qle_bool_iff in E.
        destruct i as [|i].
        -- cbn [nth] in *. assert (Hxx : x == x1) by lra.
           rewrite (lin_compat _ _ _ _ _ _ Hxx). rewrite (lin_right _ _ _ _ H01).
           split; [apply Q.le_min_l | apply Q.le_max_l].
        -- exfalso.
           assert (Hlt : x1 < nth i (x2 :: xr') 0).
           { apply increasing_head_lt; [exact Hinc | cbn [length] in *; lia]. }
           change (nth (S i) (x1 :: x2 :: xr') 0) with (nth i (x2 :: xr') 0) in Hx. lra.
      * apply (IH (y1 :: yr) i x); cbn [length] in *; try lia; assumption.
Qed.

(* ---- the angle ---------------------------------------------------------- *)
Lemma floor_unique (a : Z) (x : Q) : inject_Z a <= x -> x < inject_Z (a + 1) -> Qfloor x = a.
Proof.
  intros H1 H2.
  pose proof (Qfloor_le x) as F1. pose proof (Qlt_floor x) as F2.
  assert (A : inject_Z a < inject_Z (Qfloor x + 1)) by lra.
  assert (B : inject_Z (Qfloor x) < inject_Z (a + 1)) by lra.
  rewrite <- Zlt_Qlt in A, B. lia.
Qed.

Lemma frac_range u : 0 <= frac u /\ frac u < 1.
Proof.
  unfold frac. pose proof (Qfloor_le u) as F1. pose proof (Qlt_floor u) as F2.
  rewrite inject_Z_plus in F2. change (inject_Z 1) with 1 in F2. split; lra.
Qed.

Lemma frac_shift u (k : Z) : frac (u + inject_Z k) == frac u.
Proof.
  unfold frac.
  assert (E : Qfloor (u + inject_Z k) = (Qfloor u + k)%Z).
  { apply floor_unique.
    - rewrite inject_Z_plus. pose proof (Qfloor_le u). lra.
    - pose proof (Qlt_floor u) as F. rewrite !inject_Z_plus in *. lra. }
  rewrite E, inject_Z_plus. ring.
Qed.

Lemma frac_id u : 0 <= u -> u < 1 -> frac u == u.
Proof.
  intros H0 H1. unfold frac.
  assert (E : Qfloor u = 0%Z) by (apply floor_unique; [exact H0 | exact H1]).
  rewrite E. change (inject_Z 0) with 0. ring.
Qed.

Lemma interp1_compat_ys xs : forall ys ys' x,
  Forall2 Qeq ys ys' -> interp1 xs ys x == interp1 xs ys' x.
Proof.
  induction xs as [|x0 xs IH]; intros ys ys' x F; [reflexivity|].
  destruct F as [|y0 y0' ys ys' H0 F]; [reflexivity|].
  destruct xs as [|x1 xr]; [cbn [interp1]; destruct ys, ys'; exact H0|].
  destruct F as [|y1 y1' yr yr' H1 F]; [cbn [interp1]; exact H0|].
  rewrite !interp1_cons2.
  destruct xr as [|x2 xr'].
  - unfold lin. rewrite H0, H1. reflexivity.
  - destruct (Qle_bool x x1).
    + unfold lin. rewrite H0, H1. reflexivity.
    + apply IH. constructor; assumption.
Qed.

Lemma interp3_compat_u ts us zs data t u u' z :
  u == u' -> interp3 ts us zs data t u z == interp3 ts us zs data t u' z.
Proof.
  intros H. unfold interp3. apply interp1_compat_ys.
  induction data as [|p l IHl]; cbn [map]; constructor; auto. apply interp1_compat; exact H.
Qed.

(* periodicity: a whole number of turns changes nothing *)
Lemma periodic ts nt zs data t u z (k : Z) :
  interp3_periodic ts nt zs data t (u + inject_Z k) z == interp3_periodic ts nt zs data t u z.
Proof. unfold interp3_periodic. apply interp3_compat_u. apply frac_shift. Qed.

(* grid facts for the closed circumferential grid *)
Lemma ugrid_from_length k n nt : length (ugrid_from k n nt) = n.
Proof. revert k; induction n as [|n IH]; intros k; cbn [ugrid_from length]; auto. Qed.

Lemma ugrid_from_nth n : forall k nt i, (i < n)%nat -> nth i (ugrid_from k n nt) 0 = (Z.of_nat (k + i) # nt).
Proof.
  induction n as [|n IH]; intros k nt i Hi; [lia|].
  cbn [ugrid_from]. destruct i as [|i]; cbn [nth].
  - rewrite Nat.add_0_r. reflexivity.
  - rewrite IH by lia. f_equal. f_equal. lia.
Qed.

Lemma ugrid_from_increasing n : forall k nt, increasing (ugrid_from k n nt).
Proof.
  induction n as [|n IH]; intros k nt; cbn [ugrid_from increasing]; auto.
  destruct n as [|n']; cbn [ugrid_from]; auto.
  split.
  - unfold Qlt. cbn [Qnum Qden]. nia.
  - apply (IH (S k) nt).
Qed.

Lemma nth_last_Q (ys : list Q) : nth (length ys - 1) ys 0 = last ys 0.
Proof.
  induction ys as [|a ys IH]; [reflexivity|].
  destruct ys as [|b r]; [reflexivity|].
  change (last (a :: b :: r) 0) with (last (b :: r) 0). rewrite <- IH.
  cbn [length]. replace (S (S (length r)) - 1)%nat with (S (S (length r) - 1)) by lia. reflexivity.
Qed.

(* In the seam cell (u between the last column and a full turn) the value of
   the closed-grid interpolant along theta lies between the last column's and
   the FIRST column's datum. *)
Lemma seam_between (nt : positive) (ys : list Q) (y0 : Q) (u : Q) :
  length ys = Pos.to_nat nt -> hd 0 ys = y0 ->
  (Z.pos nt - 1 # nt) <= u <= 1 ->
  Qmin (last ys 0) y0 <= interp1 (ugrid_closed nt) (ys ++ [y0]) u <= Qmax (last ys 0) y0.
Proof.
  intros Hlen Hhd Hu.
  set (n := Pos.to_nat nt) in *.
  assert (Hn : (1 <= n)%nat) by (unfold n; lia).
  pose proof (interp1_between (ugrid_closed nt) (ys ++ [y0]) (n - 1) u) as B.
  unfold ugrid_closed in *. fold n in B.
  rewrite ugrid_from_length in B.
  rewrite !ugrid_from_nth in B by lia.
  replace (S (n - 1)) with n in B by lia.
  rewrite app_nth1 in B by lia.
  rewrite app_nth2 in B by lia. rewrite Hlen, Nat.sub_diag in B. cbn [nth] in B.
  assert (E1 : nth (n - 1) ys 0 = last ys 0).
  { rewrite <- Hlen. apply nth_last_Q. }
  rewrite E1 in B. fold n. apply B.
  - apply ugrid_from_increasing.
  - rewrite app_length. cbn [length]. lia.
  - lia.
  - cbn [Nat.add]. split.
    + destruct Hu as [Hu _]. eapply Qle_trans; [|exact Hu].
      unfold Qle. cbn [Qnum Qden]. unfold n. nia.
    + destruct Hu as [_ Hu]. eapply Qle_trans; [exact Hu|].
      unfold Qle. cbn [Qnum Qden]. unfold n. nia.
Qed.

(* the pinned code before the repair was not periodic: in the seam cell it
   left the range of the neighbouring data (4-column grid, u = 3.5/4) *)
Lemma open_grid_refuted :
  exists ts zs data t u z,
    let v := interp3_open ts 4 zs data t u z in
    Qle_bool v 16 = false /\ Qle_bool (interp3_periodic ts 4 zs data t u z) 16 = true
    /\ Qle_bool 1 (interp3_periodic ts 4 zs data t u z) = true.
Proof.
  exists [0; 1], [0; 1], [[[7; 7]; [10; 10]; [13; 13]; [16; 16]]; [[7; 7]; [10; 10]; [13; 13]; [16; 16]]], 0, (7 # 8), 0.
  vm_compute. repeat split.
Qed.

(* ---- dispatch ------------------------------------------------------------ *)
Lemma dispatch_scalar base args :
  forallb is_sc args = true -> dispatch base args = RSc (base (map (fun a => arg_at a 0) args)).
Proof. intros H. unfold dispatch. rewrite H. reflexivity. Qed.

Definition scalar_query (args : list arg) (i : nat) : list arg := map (fun a => Sc (arg_at a i)) args.

Lemma scalar_query_all_sc args i : forallb is_sc (scalar_query args i) = true.
Proof. unfold scalar_query. induction args; cbn; auto. Qed.

Lemma scalar_query_vals args i :
  map (fun a => arg_at a 0) (scalar_query args i) = map (fun a => arg_at a i) args.
Proof. unfold scalar_query. rewrite map_map. reflexivity. Qed.

(* array queries agree with element-wise scalar queries *)
Lemma dispatch_vector base args l :
  dispatch base args = RAr l ->
  exists n, first_len args = Some n /\ length l = n /\
  forall i, (i < n)%nat -> dispatch base (scalar_query args i) = RSc (nth i l 0).
Proof.
  intros H. unfold dispatch in H. destruct (forallb is_sc args) eqn:Hs; [discriminate|].
  destruct (first_len args) as [n|] eqn:Hn; [|discriminate].
  destruct (lens_ok n args); [|discriminate].
  inversion H; subst l. clear H.
  exists n. split; [reflexivity|]. split; [rewrite map_length, seq_length; reflexivity|].
  intros i Hi.
  rewrite dispatch_scalar by apply scalar_query_all_sc.
  rewrite scalar_query_vals. f_equal.
  rewrite (nth_indep _ 0 (base (map (fun a => arg_at a 0%nat) args)))
    by (rewrite map_length, seq_length; exact Hi).
  rewrite (map_nth (fun i => base (map (fun a => arg_at a i) args)) (seq 0 n) 0%nat i).
  rewrite seq_nth by exact Hi. reflexivity.
Qed.

(* ---- constructor shapes -------------------------------------------------- *)
Lemma shape_eqb_eq a : forall b, shape_eqb a b = true <-> a = b.
Proof.
  induction a as [|x a IH]; intros [|y b]; cbn [shape_eqb]; split; intros H; try reflexivity; try discriminate.
  - apply andb_prop in H. destruct H as [H1 H2]. apply Nat.eqb_eq in H1. apply IH in H2. subst. reflexivity.
  - inversion H; subst. rewrite Nat.eqb_refl. apply IH. reflexivity.
Qed.

Lemma ctor_accepts_iff k ntime nt nz given :
  ctor_accepts k ntime nt nz given = true <-> given = documented k ntime nt nz.
Proof.
  unfold ctor_accepts. generalize (documented k ntime nt nz) as d. intros d. revert given.
  induction d as [|s d IH]; intros [|t g]; split; intros H; try reflexivity; try discriminate.
  - apply andb_prop in H. destruct H as [H1 H2]. apply shape_eqb_eq in H1. apply IH in H2. subst. reflexivity.
  - inversion H; subst. apply andb_true_intro. split; [apply shape_eqb_eq; reflexivity | apply IH; reflexivity].
Qed.

(* ---- set_bc ---------------------------------------------------------------- *)
Lemma isclose_refl a : isclose a a = true.
Proof.
  unfold isclose. apply Qle_bool_iff.
  assert (E : a - a == 0) by ring. rewrite E. change (Qabs 0) with 0.
  pose proof (Qabs_nonneg a). lra.
Qed.

Lemma set_bc_accepts_match (inner : bool) (r t h : Q) :
  set_bc_accepts inner r t h (if inner then r - t else r) h = true.
Proof. unfold set_bc_accepts. rewrite !isclose_refl. reflexivity. Qed.

Lemma set_bc_rejects_mismatch (inner : bool) (r t h bc_r bc_h : Q) :
  let target := if inner then r - t else r in
  ((1 # 100000000) + (1 # 100000) * Qabs target < Qabs (bc_r - target)
   \/ (1 # 100000000) + (1 # 100000) * Qabs h < Qabs (bc_h - h)) ->
  set_bc_accepts inner r t h bc_r bc_h = false.
Proof.
  intros target H. unfold set_bc_accepts, isclose. fold target.
  apply andb_false_iff. destruct H as [H | H]; [left | right];
    (destruct (Qle_bool _ _) eqn:E; auto; apply Qle_bool_iff in E; lra).
Qed.

(* ---- the full (time, theta, z) evaluator at grid points ------------------ *)
Definition well_shaped3 (nt_ nz_ : nat) (data : list (list (list Q))) : Prop :=
  Forall (fun plane => length plane = nt_ /\ Forall (fun row => length row = nz_) plane) data.

Lemma Forall2_map_Qeq {A} (f g : A -> Q) (l : list A) :
  Forall (fun a => f a == g a) l -> Forall2 Qeq (map f l) (map g l).
Proof. induction 1; cbn [map]; constructor; auto. Qed.

Lemma nth_map_default {A} (f : A -> Q) (l : list A) (d : A) i :
  (i < length l)%nat -> nth i (map f l) 0 = f (nth i l d).
Proof.
  revert i; induction l as [|a l IH]; intros i Hi; cbn [length] in Hi; [lia|].
  destruct i; cbn [map nth]; [reflexivity | apply IH; lia].
Qed.

Lemma nth_map_default_gen {A B} (f : A -> B) (l : list A) (d : A) (e : B) i :
  (i < length l)%nat -> nth i (map f l) e = f (nth i l d).
Proof.
  revert i; induction l as [|a l IH]; intros i Hi; cbn [length] in Hi; [lia|].
  destruct i; cbn [map nth]; [reflexivity | apply IH; lia].
Qed.

Lemma interp3_grid_exact ts us zs data a b c :
  increasing ts -> increasing us -> increasing zs ->
  (2 <= length ts)%nat -> (2 <= length us)%nat -> (2 <= length zs)%nat ->
  length data = length ts -> well_shaped3 (length us) (length zs) data ->
  (a < length ts)%nat -> (b < length us)%nat -> (c < length zs)%nat ->
  interp3 ts us zs data (nth a ts 0) (nth b us 0) (nth c zs 0)
  == nth c (nth b (nth a data []) []) 0.
Proof.
  intros It Iu Iz Lt Lu Lz Hd Hw Ha Hb Hc. unfold interp3.
  set (g := fun plane : list (list Q) => nth c (nth b plane []) 0).
  rewrite (interp1_compat_ys ts _ (map g data)).
  - rewrite interp1_grid_exact; auto.
    + rewrite (nth_map_default g data [] a) by lia. reflexivity.
    + rewrite map_length. exact Hd.
  - apply Forall2_map_Qeq. unfold well_shaped3 in Hw.
    eapply Forall_impl; [|exact Hw]. intros plane [Hp Hrows]. unfold g.
    set (h := fun row : list Q => nth c row 0).
    rewrite (interp1_compat_ys us _ (map h plane)).
    + rewrite interp1_grid_exact; auto.
      * rewrite (nth_map_default h plane [] b) by lia. reflexivity.
      * rewrite map_length. exact Hp.
    + apply Forall2_map_Qeq. eapply Forall_impl; [|exact Hrows].
      intros row Hr. unfold h. apply interp1_grid_exact; auto.
Qed.

Lemma close_plane_nth plane b : (b < length plane)%nat -> nth b (close_plane plane) [] = nth b plane [].
Proof.
  intros Hb. unfold close_plane. destruct plane as [|r0 rest]; [reflexivity|].
  apply app_nth1. exact Hb.
Qed.

Lemma close_plane_shape ntn nz_ plane :
  (1 <= ntn)%nat -> length plane = ntn -> Forall (fun row => length row = nz_) plane ->
  length (close_plane plane) = S ntn /\ Forall (fun row : list Q => length row = nz_) (close_plane plane).
Proof.
  intros H1 Hl Hr. unfold close_plane. destruct plane as [|r0 rest]; cbn [length] in *; [lia|].
  split.
  - rewrite app_length. cbn [length]. lia.
  - apply Forall_app. split; [exact Hr|]. constructor; [|constructor]. inversion Hr; assumption.
Qed.

(* the repaired evaluator returns the stored datum at every grid time, column
   angle b/nt and grid height *)
Lemma periodic_grid_exact ts (nt : positive) zs data a b c :
  increasing ts -> increasing zs -> (2 <= length ts)%nat -> (2 <= length zs)%nat ->
  length data = length ts -> well_shaped3 (Pos.to_nat nt) (length zs) data ->
  (a < length ts)%nat -> (b < Pos.to_nat nt)%nat -> (c < length zs)%nat ->
  interp3_periodic ts nt zs data (nth a ts 0) (Z.of_nat b # nt) (nth c zs 0)
  == nth c (nth b (nth a data []) []) 0.
Proof.
  intros It Iz Lt Lz Hd Hw Ha Hb Hc. unfold interp3_periodic.
  assert (Hf : frac (Z.of_nat b # nt) == (Z.of_nat b # nt)).
  { apply frac_id; unfold Qle, Qlt; cbn [Qnum Qden]; lia. }
  rewrite (interp3_compat_u _ _ _ _ _ _ _ _ Hf).
  assert (Hg : nth b (ugrid_closed nt) 0 = (Z.of_nat b # nt)).
  { unfold ugrid_closed. rewrite ugrid_from_nth by lia. reflexivity. }
  rewrite <- Hg.
  rewrite interp3_grid_exact; auto.
  - rewrite (nth_map_default_gen close_plane data [] [] a) by lia.
    rewrite close_plane_nth; [reflexivity|].
    unfold well_shaped3 in Hw. rewrite Forall_forall in Hw.
    destruct (Hw (nth a data [])) as [Hp _]; [apply nth_In; lia | lia].
  - apply ugrid_from_increasing.
  - unfold ugrid_closed. rewrite ugrid_from_length. lia.
  - rewrite map_length. exact Hd.
  - unfold well_shaped3 in *. unfold ugrid_closed. rewrite ugrid_from_length.
    apply Forall_map. eapply Forall_impl; [|exact Hw]. intros plane [Hp Hr].
    apply (close_plane_shape (Pos.to_nat nt)); auto. lia.
  - unfold ugrid_closed. rewrite ugrid_from_length. lia.
Qed.
