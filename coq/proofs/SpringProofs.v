(* Facts about the receiver spring-system model (model/Spring.v). *)
From Coq Require Import QArith Qabs List Bool ZArith Lia Lqa.
From SV Require Import model.Spring.
Import ListNotations.
Open Scope Q_scope.

(* the edge assembly does not depend on the orientation of the edge, only on
   which dof is numbered higher *)
Theorem fj_orientation_invariant (f : Q -> Q) ii jj dii djj :
  (forall x y, x == y -> f x == f y) -> ii <> jj ->
  fst (fj f ii jj dii djj) == snd (fj f jj ii djj dii) /\
  snd (fj f ii jj dii djj) == fst (fj f jj ii djj dii).
Proof.
  intros Hf Hne. unfold fj.
  destruct (Nat.ltb_spec jj ii) as [A | A]; destruct (Nat.ltb_spec ii jj) as [B | B]; try lia; cbn [fst snd].
  - assert (E : f ((djj - dii) * 1) == f ((dii - djj) * -1)) by (apply Hf; ring). rewrite E. split; ring.
  - assert (E : f ((djj - dii) * -1) == f ((dii - djj) * 1)) by (apply Hf; ring). rewrite E. split; ring.
Qed.

(* the higher-numbered dof receives -f(d_lo - d_hi), the lower one +f(d_lo - d_hi) *)
Theorem fj_forces (f : Q -> Q) lo hi dlo dhi :
  (forall x y, x == y -> f x == f y) -> (lo < hi)%nat ->
  fst (fj f hi lo dhi dlo) == - f (dlo - dhi) /\ snd (fj f hi lo dhi dlo) == f (dlo - dhi).
Proof.
  intros Hf Hlt. unfold fj. destruct (Nat.ltb_spec lo hi) as [A | A]; [|lia]. cbn [fst snd].
  assert (E : f ((dlo - dhi) * 1) == f (dlo - dhi)) by (apply Hf; ring). rewrite E. split; ring.
Qed.

(* a numeric connection carries stiffness times relative displacement: for a
   linear law the force on the higher dof is k * (d_hi - d_lo) *)
Corollary fj_linear k lo hi dlo dhi : (lo < hi)%nat ->
  fst (fj (fun d => k * d) hi lo dhi dlo) == k * (dhi - dlo) /\ snd (fj (fun d => k * d) hi lo dhi dlo) == - (k * (dhi - dlo)).
Proof.
  intros Hlt. destruct (fj_forces (fun d => k * d) lo hi dlo dhi) as [A B]; auto.
  - intros x y H. rewrite H. reflexivity.
  - rewrite A, B. split; ring.
Qed.

(* ---- what equilibrium means for the tubes ------------------------------------------- *)
Section Equil.
Variable r : receiver.
Variable u : field.
Hypothesis HE : Equil r u.

(* rigidly connected tubes share one top displacement (that of their manifold);
   with a rigid receiver connection all manifolds share the root's *)
Theorem rigid_tubes_share_displacement p pn q q' :
  nth_error (panels r) p = Some pn -> popt pn = Rigid ->
  (q < length (tubes pn))%nat -> (q' < length (tubes pn))%nat -> u_top u p q == u_top u p q'.
Proof.
  intros Hp Hr Hq Hq'. destruct HE as ((_ & C) & _).
  rewrite (C p pn Hp Hr q Hq), (C p pn Hp Hr q' Hq'). reflexivity.
Qed.

(* a disconnected tube is in equilibrium on its own: kt * d + f0 = 0 *)
Theorem disconnected_tube_alone p pn q t :
  nth_error (panels r) p = Some pn -> popt pn = Cut -> nth_error (tubes pn) q = Some t ->
  kt t * u_top u p q + f0 t == 0.
Proof.
  intros Hp Hc Hq. destruct HE as (_ & TB & _). specialize (TB p pn q t Hp Hq).
  unfold top_residual in TB. rewrite Hc in TB. unfold tube_force in TB. lra.
Qed.

(* a numeric panel connection carries stiffness times relative displacement,
   and that force is what the tube resists with *)
Theorem numeric_connection_carries p pn q t k :
  nth_error (panels r) p = Some pn -> popt pn = Lin k -> nth_error (tubes pn) q = Some t ->
  k * (u_man u p - u_top u p q) == kt t * u_top u p q + f0 t.
Proof.
  intros Hp Hl Hq. destruct HE as (_ & TB & _). specialize (TB p pn q t Hp Hq).
  unfold top_residual in TB. rewrite Hl in TB. unfold tube_force in TB. lra.
Qed.

(* a free manifold is in force balance: receiver spring against everything below *)
Theorem manifold_balance p pn K :
  nth_error (panels r) p = Some pn -> ropt r = Lin K ->
  K * (u_man u p - u_root u) == below_manifold pn (u_man u p) (tops u p pn).
Proof.
  intros Hp Hl. destruct HE as (_ & _ & MB & _). specialize (MB p pn Hp).
  unfold manifold_residual in MB. rewrite Hl in MB. lra.
Qed.

Theorem disconnected_panel_balance p pn :
  nth_error (panels r) p = Some pn -> ropt r = Cut ->
  below_manifold pn (u_man u p) (tops u p pn) == 0.
Proof.
  intros Hp Hc. destruct HE as (_ & _ & MB & _). specialize (MB p pn Hp).
  unfold manifold_residual in MB. rewrite Hc in MB. exact MB.
Qed.
End Equil.

(* the reconstruction used by the certificate returns the reported tube-top
   displacements unchanged *)
Lemma field_of_tops r utops p q : u_top (field_of r utops) p q = nth q (nth p utops []) 0.
Proof. reflexivity. Qed.
