(* Consistency of the bilinear-quadrilateral model (model/FE2D.v): the physical shape-function derivatives form a
   partition of zero and reproduce the coordinates (so rigid translations give no strain and every linear displacement
   field its constant strain: the patch test), and the nodal forces of any stress at a quadrature point sum to zero. *)
From Coq Require Import QArith Qabs List Bool Lqa.
From SV Require Import model.FE2D.
Import ListNotations.
Open Scope Q_scope.

Lemma sumQ_cons x l : sumQ (x :: l) == x + sumQ l.
Proof. unfold sumQ. cbn [fold_right]. apply Qred_correct. Qed.

Lemma sumQ4 a b c d : sumQ [a; b; c; d] == a + b + c + d.
Proof. rewrite !sumQ_cons. unfold sumQ. cbn [fold_right]. ring. Qed.

Lemma dotl4 p1 p2 p3 p4 q1 q2 q3 q4 : dotl [p1; p2; p3; p4] [q1; q2; q3; q4] == p1 * q1 + p2 * q2 + p3 * q3 + p4 * q4.
Proof. unfold dotl. cbn [combine map fst snd]. apply sumQ4. Qed.

Section Element.
Variables (x1 y1 x2 y2 x3 y3 x4 y4 : Q) (x y : Q).
Let ns : list vec := [(x1, y1); (x2, y2); (x3, y3); (x4, y4)].
(* entries of the Jacobian of the map, written out *)
Let A := -(1 - y) * x1 + (1 - y) * x2 + y * x3 + - y * x4.
Let B := -(1 - x) * x1 + - x * x2 + x * x3 + (1 - x) * x4.
Let C := -(1 - y) * y1 + (1 - y) * y2 + y * y3 + - y * y4.
Let D := -(1 - x) * y1 + - x * y2 + x * y3 + (1 - x) * y4.
Hypothesis Hdet : ~ A * D - B * C == 0.

(* the four entries as the model computes them *)
Let a' := dotl (map fst (dshape x y)) (map fst ns).
Let b' := dotl (map snd (dshape x y)) (map fst ns).
Let c' := dotl (map fst (dshape x y)) (map snd ns).
Let d' := dotl (map snd (dshape x y)) (map snd ns).

Lemma entries : a' == A /\ b' == B /\ c' == C /\ d' == D.
Proof. unfold a', b', c', d', ns, dshape. cbn [map fst snd]. rewrite !dotl4. unfold A, B, C, D. repeat split; ring. Qed.

Lemma jac_entries : jac ns x y = (a', b', c', d').
Proof. reflexivity. Qed.

Lemma detj_explicit : detj (jac ns x y) == A * D - B * C.
Proof. rewrite jac_entries. unfold detj. destruct entries as (Ea & Eb & Ec & Ed). rewrite Ea, Eb, Ec, Ed. reflexivity. Qed.

(* one physical derivative, in terms of the written-out entries *)
Lemma entry_x dx dn : Qred ((dx * d' - dn * c') / (a' * d' - b' * c')) == (dx * D - dn * C) / (A * D - B * C).
Proof. destruct entries as (Ea & Eb & Ec & Ed). rewrite Qred_correct, Ea, Eb, Ec, Ed. reflexivity. Qed.
Lemma entry_y dx dn : Qred ((- dx * b' + dn * a') / (a' * d' - b' * c')) == (- dx * B + dn * A) / (A * D - B * C).
Proof. destruct entries as (Ea & Eb & Ec & Ed). rewrite Qred_correct, Ea, Eb, Ec, Ed. reflexivity. Qed.

Lemma dphys_entries :
  dphys ns x y = map (fun dn => (Qred ((fst dn * d' - snd dn * c') / (a' * d' - b' * c')),
                                 Qred ((- fst dn * b' + snd dn * a') / (a' * d' - b' * c')))) (dshape x y).
Proof. unfold dphys. rewrite jac_entries. reflexivity. Qed.

Ltac side := let Hz := fresh "Hz" in intro Hz; apply Hdet; rewrite <- Hz; ring.

(* partition of zero: the derivatives of the four shape functions add up to nothing *)
Theorem derivatives_sum_to_zero :
  sumQ (map fst (dphys ns x y)) == 0 /\ sumQ (map snd (dphys ns x y)) == 0.
Proof.
  rewrite dphys_entries. unfold dshape. cbn [map fst snd]. split; rewrite sumQ4.
  - rewrite !entry_x. field. side.
  - rewrite !entry_y. field. side.
Qed.

(* completeness: they reproduce the coordinates *)
Theorem derivatives_reproduce_coordinates :
  dotl (map fst (dphys ns x y)) (map fst ns) == 1 /\ dotl (map fst (dphys ns x y)) (map snd ns) == 0 /\
  dotl (map snd (dphys ns x y)) (map fst ns) == 0 /\ dotl (map snd (dphys ns x y)) (map snd ns) == 1.
Proof.
  rewrite dphys_entries. unfold dshape, ns. cbn [map fst snd]. repeat split; rewrite dotl4.
  - rewrite !entry_x. unfold A, B, C, D in *. field. exact Hdet.
  - rewrite !entry_x. unfold A, B, C, D in *. field. exact Hdet.
  - rewrite !entry_y. unfold A, B, C, D in *. field. exact Hdet.
  - rewrite !entry_y. unfold A, B, C, D in *. field. exact Hdet.
Qed.

(* patch test: a linear displacement field (a rigid translation when the gradient vanishes) has its constant strain at
   every point of every non-degenerate element *)
Theorem patch_test a11 a12 a21 a22 b1 b2 :
  let us := map (fun n : vec => (a11 * fst n + a12 * snd n + b1, a21 * fst n + a22 * snd n + b2)) ns in
  fst (fst (strain2 ns us x y)) == a11 /\ snd (fst (strain2 ns us x y)) == a22 /\ snd (strain2 ns us x y) == a12 + a21.
Proof.
  cbv zeta. unfold strain2. rewrite dphys_entries. unfold dshape, ns. cbn [map fst snd]. repeat split; rewrite !dotl4.
  - rewrite !entry_x. unfold A, B, C, D in *. field. exact Hdet.
  - rewrite !entry_y. unfold A, B, C, D in *. field. exact Hdet.
  - rewrite !entry_x, !entry_y. unfold A, B, C, D in *. field. exact Hdet.
Qed.

(* the four nodal forces a stress produces at a quadrature point of the element add up to zero *)
Theorem point_forces_balance (w : Q) (s : stress2) :
  let f := gp_forces2 ns (mkG2 x y w) s in
  sumQ (map fst f) == 0 /\ sumQ (map snd f) == 0.
Proof.
  cbv zeta. unfold gp_forces2. cbn [gx gy gw]. set (wd := Qred (w * Qabs (detj (jac ns x y)))).
  rewrite dphys_entries. unfold dshape. cbn [map fst snd]. split; rewrite sumQ4, !entry_x, !entry_y, !Qred_correct.
  - field. side.
  - field. side.
Qed.
End Element.
