From Coq Require Import List String Bool ZArith Lia.
From SV Require Import model.H5.
Import ListNotations.
Open Scope string_scope.

Lemma same_value_roundtrip v : same_value (h5_roundtrip v) v = true.
Proof.
  destruct v; cbn; try apply Z.eqb_refl; try apply String.eqb_refl; try reflexivity.
  destruct (list_eq_dec Nat.eq_dec shape shape); [|congruence].
  destruct (list_eq_dec Z.eq_dec bits bits); [reflexivity | congruence].
Qed.

Lemma lookup_save keys rec k : In k keys -> lookup k (save keys rec) = h5_roundtrip (rec k).
Proof.
  unfold save. induction keys as [|k0 r IH]; intros H; [destruct H|].
  cbn [map lookup]. destruct (String.eqb_spec k k0) as [-> | NE]; [reflexivity|].
  destruct H as [E | H]; [congruence | apply IH; exact H].
Qed.

Lemma existsb_eqb_In k keys : existsb (String.eqb k) keys = true <-> In k keys.
Proof.
  rewrite existsb_exists. split.
  - intros (x & Hx & E). apply String.eqb_eq in E. subst. exact Hx.
  - intros H. exists k. split; [exact H | apply String.eqb_refl].
Qed.

(* every persisted field comes back with the same value (up to the numeric
   tower); nothing else is invented *)
Theorem roundtrip_values keys rec k :
  In k keys -> same_value (load keys (save keys rec) k) (rec k) = true.
Proof.
  intros H. unfold load. rewrite (proj2 (existsb_eqb_In k keys) H).
  rewrite lookup_save by exact H. apply same_value_roundtrip.
Qed.

Theorem roundtrip_nothing_invented keys rec k : ~ In k keys -> load keys (save keys rec) k = Missing.
Proof.
  intros H. unfold load. destruct (existsb (String.eqb k) keys) eqn:E; [|reflexivity].
  apply existsb_eqb_In in E. contradiction.
Qed.

(* a numeric option stays numeric through a reload (it only changes its dynamic type) *)
Theorem numeric_survives_reload v : is_numeric (h5_roundtrip v) = is_numeric v.
Proof. destruct v; reflexivity. Qed.

(* entries of an insertion-ordered container come back in the order they were written *)
Theorem ordered_container_order keys rec : map fst (save keys rec) = keys.
Proof. unfold save. rewrite map_map. cbn. apply map_id. Qed.
