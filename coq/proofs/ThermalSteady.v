(* Steady conduction in the model of model/Thermal.v: for constant properties
   the discrete radial heat flow is the same through every half node, which
   gives the discrete profile in closed form; the steady solution is a fixed
   point of the transient step, and every transient step is non-expansive
   towards it. *)
From Coq Require Import QArith Qabs List Bool ZArith Lia Lqa.
From SV Require Import theory.Sums model.Thermal proofs.ThermalConservation proofs.ThermalMaxPrinciple.
Import ListNotations.
Open Scope Q_scope.

Definition const_tables (c : cfg) (a k : Q) : Prop :=
  (forall i j kx, cc c i j kx == a) /\ (forall i j kx, kk c i j kx == k).

Section Steady1D.
Variable c : cfg.
Variables T0 T : field.
Variables a k : Q.
Hypothesis Hs : steady c = true.
Hypothesis Ht : has_t c = false.
Hypothesis Hz : has_z c = false.
Hypothesis Hc : const_tables c a k.
Hypothesis Ha : 0 < a.
Hypothesis Hdr : 0 < dr c.
Hypothesis Hrad : rad_pos c.
Hypothesis HE : Eqs c T0 T.

Let Phi (i : nat) : Q := rh c i * (T (S i) 0%nat 0%nat - T i 0%nat 0%nat).

Lemma g_r_const i : g_r c i 0%nat 0%nat == rh c i * a / (dr c * dr c).
Proof.
  unfold g_r, ch_r. destruct Hc as [C _]. rewrite !C. field. lra.
Qed.

(* the radial heat flow through consecutive half nodes is equal *)
Lemma flux_step i : In i (irange c) -> Phi i == Phi (pred i).
Proof.
  intros Hi. destruct HE as (HN & _).
  assert (J0 : In 0%nat (jrange c)) by (unfold jrange; rewrite Ht; left; reflexivity).
  assert (K0 : In 0%nat (krange c)) by (unfold krange; rewrite Hz; left; reflexivity).
  pose proof (HN i 0%nat 0%nat Hi J0 K0) as E.
  unfold res_node in E. rewrite Hs in E. unfold Lap, L_t, L_z in E. rewrite Ht, Hz in E.
  unfold L_r in E. rewrite !g_r_const in E.
  pose proof (Hrad i Hi) as Rp.
  assert (Hi1 : S (pred i) = i) by (unfold irange in Hi; apply in_seq in Hi; lia).
  unfold Phi. rewrite Hi1.
  set (dp := T (S i) 0%nat 0%nat - T i 0%nat 0%nat) in *.
  set (dm := T i 0%nat 0%nat - T (pred i) 0%nat 0%nat) in *.
  set (X := (rh c i * a / (dr c * dr c) * dp - rh c (pred i) * a / (dr c * dr c) * dm) / rad c i) in *.
  assert (E2 : (rh c i * dp - rh c (pred i) * dm) * (a / (dr c * dr c) / rad c i) == X).
  { unfold X. field. split; lra. }
  assert (P : 0 < a / (dr c * dr c) / rad c i).
  { apply Qlt_shift_div_l; [exact Rp|]. rewrite Qmult_0_l. apply Qlt_shift_div_l; nra. }
  assert (X0 : X == 0) by lra.
  rewrite X0 in E2.
  assert (rh c i * dp - rh c (pred i) * dm == 0) by nra. lra.
Qed.

Theorem steady_flux_constant : forall i, (i <= nr c)%nat -> Phi i == Phi 0%nat.
Proof.
  induction i as [|i IH]; intros Hi; [reflexivity|].
  rewrite (flux_step (S i)) by (unfold irange; apply in_seq; lia).
  cbn [pred]. apply IH. lia.
Qed.

(* the discrete profile: T_i = T_1 + Phi * sum_{m=1}^{i-1} 1 / r_{m+1/2} *)
Theorem steady_profile :
  (forall m, 0 < rh c m) ->
  forall i, (1 <= i <= S (nr c))%nat ->
  T i 0%nat 0%nat == T 1%nat 0%nat 0%nat + Phi 0%nat * sumL (fun m => 1 / rh c m) (seq 1 (i - 1)).
Proof.
  intros Hrh i. induction i as [|i IH]; intros Hi; [lia|].
  destruct (Nat.eq_dec i 0) as [-> | Hne].
  - cbn [Nat.sub seq sumL]. ring.
  - replace (S i - 1)%nat with (S (i - 1)) by lia.
    rewrite seq_S.
    assert (SL : forall (f : nat -> Q) l x, sumL f (l ++ [x]) == sumL f l + f x).
    { intros f l x. induction l as [|y r IHl]; cbn [app sumL]; [ring | rewrite IHl; ring]. }
    rewrite SL. replace (1 + (i - 1))%nat with i by lia.
    assert (Pi : Phi i == Phi 0%nat) by (apply steady_flux_constant; lia).
    unfold Phi in Pi at 1.
    pose proof (Hrh i) as Ri.
    assert (D : T (S i) 0%nat 0%nat - T i 0%nat 0%nat == Phi 0%nat * (1 / rh c i)).
    { rewrite <- Pi. field. lra. }
    rewrite (IH ltac:(lia)) in D.
    assert (X : forall x y z w, x - (y + z) == w -> x == y + (z + w)) by (intros; lra).
    rewrite (X _ _ _ _ D). ring.
Qed.
End Steady1D.

(* ---- steady solution and the transient step -------------------------------- *)
Definition retable (c : cfg) (st : bool) (dt' : Q) (cc' : field) : cfg :=
  mkCfg (nr c) (nt c) (nz c) (has_t c) (has_z c) (dr c) (dth c) (dz c) dt' (ri c) st
        cc' (kk c) (inner c) (outer c).

(* constant properties (conductivity k, diffusivity q * k) and time-constant
   data: a steady-mode solution is a fixed point of every transient step *)
Theorem steady_is_fixed_point c T0 T (q k dt0 dt' : Q) :
  Eqs (retable c true dt0 (fun _ _ _ => k)) T0 T ->
  Eqs (retable c false dt' (fun _ _ _ => q * k)) T T.
Proof.
  intros (HN & HW & HP & HA). repeat split.
  - intros i j kx Hi Hj Hk'.
    pose proof (HN i j kx Hi Hj Hk') as E. unfold res_node in *.
    change (steady (retable c true dt0 (fun _ _ _ => k))) with true in E.
    change (steady (retable c false dt' (fun _ _ _ => q * k))) with false. cbv iota in *.
    change (dt (retable c false dt' (fun _ _ _ => q * k))) with dt'.
    assert (L : Lap (retable c false dt' (fun _ _ _ => q * k)) T i j kx ==
                q * Lap (retable c true dt0 (fun _ _ _ => k)) T i j kx).
    { unfold Lap, L_r, L_t, L_z.
      change (has_t (retable c false dt' (fun _ _ _ => q * k))) with (has_t c).
      change (has_z (retable c false dt' (fun _ _ _ => q * k))) with (has_z c).
      change (has_t (retable c true dt0 (fun _ _ _ => k))) with (has_t c).
      change (has_z (retable c true dt0 (fun _ _ _ => k))) with (has_z c).
      unfold g_r, g_t, g_z, ch_r, ch_t, ch_z, rh, rad, retable; cbn [cc dr dth dz ri].
      destruct (has_t c), (has_z c); unfold Qdiv; ring. }
    rewrite L.
    assert (Z : Lap (retable c true dt0 (fun _ _ _ => k)) T i j kx == 0) by lra.
    rewrite Z. ring.
  - destruct (HW j k0 H H0) as [I _]. exact I.
  - destruct (HW j k0 H H0) as [_ O]. exact O.
  - destruct (HP H i k0 H0 H1) as [P _]. exact P.
  - destruct (HP H i k0 H0 H1) as [_ P]. exact P.
  - destruct (HA H i j H0 H1) as [P _]. exact P.
  - destruct (HA H i j H0 H1) as [_ P]. exact P.
Qed.

(* every transient step is non-expansive, in the maximum norm over real
   nodes, towards any fixed point with the same data (walls insulated, fixed
   or convective) *)
Definition wall_no_flux (w : wall) : Prop := match w with Flux _ => False | _ => True end.

Lemma walls_add_neg_within w : exists w0, walls_add w (neg_wall w) w0 /\
  forall c M, 0 <= M -> wall_h_nonneg c w -> wall_no_flux w -> wall_within c w0 (- M) M.
Proof.
  destruct w as [|g|q|h tf]; cbn [neg_wall]; eexists; (split; [constructor|]); intros c M HM Hh Nf;
    cbn [wall_within wall_no_flux] in *; auto.
  - intros j k Hj Hk. lra.
  - intros j k Hj Hk. split; [apply Hh; assumption | lra].
Qed.

Theorem transient_nonexpansive c Ts T0 T (M : Q) :
  good c -> wall_h_nonneg c (inner c) -> wall_h_nonneg c (outer c) ->
  wall_no_flux (inner c) -> wall_no_flux (outer c) ->
  Eqs c Ts Ts -> Eqs c T0 T ->
  (forall i j k, real c i j k -> - M <= T0 i j k - Ts i j k <= M) ->
  forall i j k, real c i j k -> - M <= T i j k - Ts i j k <= M.
Proof.
  intros G Hhi Hho Nfi Nfo Es E H0 i j k Hr.
  pose proof (Eqs_neg c Ts Ts Es) as En.
  destruct (walls_add_neg_within (inner c)) as (wi & Wi & Bi).
  destruct (walls_add_neg_within (outer c)) as (wo & Wo & Bo).
  assert (E' : Eqs (with_walls c (inner c) (outer c)) T0 T) by (destruct c; exact E).
  pose proof (Eqs_add c _ _ _ _ wi wo T0 T (negF Ts) (negF Ts) Wi Wo E' En) as Ed.
  set (cd := with_walls c wi wo) in *.
  assert (Gd : good cd) by (apply good_with_walls; exact G).
  assert (Mn : 0 <= M) by (specialize (H0 i j k Hr); lra).
  pose proof (max_principle cd (addF T0 (negF Ts)) (addF T (negF Ts)) (- M) M Gd Ed) as MP.
  assert (R : - M <= addF T (negF Ts) i j k <= M).
  { apply MP.
    - intros a b d Hr'. unfold addF, negF. specialize (H0 a b d Hr'). lra.
    - apply (Bi c M Mn Hhi Nfi).
    - apply (Bo c M Mn Hho Nfo).
    - exact Hr. }
  unfold addF, negF in R. lra.
Qed.
