(* Theorems about the strain bookkeeping model (model/Strain.v). *)
From Coq Require Import QArith Qabs List Bool ZArith Lia Lqa.
From SV Require Import model.Interp model.Strain.
Import ListNotations.
Open Scope Q_scope.

Lemma nth_last_eq {A} (l : list A) d : nth (length l - 1) l d = last l d.
Proof.
  induction l as [|x r IH]; [reflexivity|]. destruct r as [|y r']; [reflexivity|].
  cbn [length] in *. replace (S (S (length r')) - 1)%nat with (S (length r')) by lia.
  replace (S (length r') - 1)%nat with (length r') in IH by lia. cbn [nth last] in *. exact IH.
Qed.

(* ---- causality: stored results are a scan over the inputs -------------------------------- *)
Section ScanFacts.
  Context {St Inp : Type}.
  Variable step : St -> Inp -> St.

  Lemma scan_length s l : length (scan step s l) = length l.
  Proof. revert s; induction l as [|x r IH]; intros s; cbn [scan length]; [reflexivity | rewrite IH; reflexivity]. Qed.

  (* what is stored for the first k inputs does not depend on the later ones *)
  Theorem scan_firstn k : forall s l, firstn k (scan step s l) = scan step s (firstn k l).
  Proof.
    induction k as [|k IH]; intros s l; [reflexivity|].
    destruct l as [|x r]; [reflexivity|]. cbn [scan firstn]. rewrite IH. reflexivity.
  Qed.

  Theorem scan_prefix_independent s l1 l2 l2' :
    firstn (length l1) (scan step s (l1 ++ l2)) = firstn (length l1) (scan step s (l1 ++ l2')).
  Proof.
    rewrite !scan_firstn, !firstn_app, !Nat.sub_diag, !firstn_all. cbn [firstn]. reflexivity.
  Qed.

  Lemma scan_app s l1 l2 :
    scan step s (l1 ++ l2) = scan step s l1 ++ scan step (fold_left step l1 s) l2.
  Proof.
    revert s; induction l1 as [|x r IH]; intros s; [reflexivity|].
    cbn [app scan fold_left]. rewrite IH. reflexivity.
  Qed.

End ScanFacts.

(* the thermal strain history is such a scan *)
Lemma th_hist_is_scan a th T0 Ts :
  th_hist a th T0 Ts = map fst (scan (fun s T1 => (th_step a (fst s) (snd s) T1, T1)) (th, T0) Ts).
Proof.
  revert th T0; induction Ts as [|T1 r IH]; intros th T0; [reflexivity|].
  cbn [th_hist scan map fst snd]. rewrite IH. reflexivity.
Qed.

Theorem th_hist_firstn a k : forall th T0 Ts, firstn k (th_hist a th T0 Ts) = th_hist a th T0 (firstn k Ts).
Proof.
  induction k as [|k IH]; intros th T0 Ts; [reflexivity|].
  destruct Ts as [|T1 r]; [reflexivity|]. cbn [th_hist firstn]. rewrite IH. reflexivity.
Qed.

Lemma th_hist_length a : forall Ts th T0, length (th_hist a th T0 Ts) = length Ts.
Proof. induction Ts as [|T1 r IH]; intros th T0; cbn [th_hist length]; [reflexivity | rewrite IH; reflexivity]. Qed.

(* ---- unchanged temperature: no thermal strain ------------------------------------------------- *)
Lemma th_step_same a th T0 T1 : T1 == T0 -> th_step a th T0 T1 == th.
Proof. intros H. unfold th_step. assert (E : T1 - T0 == 0) by lra. rewrite E. ring. Qed.

Theorem th_hist_unchanged a Tref : forall Ts th T0, T0 == Tref -> (forall T, In T Ts -> T == Tref) ->
  forall x, In x (th_hist a th T0 Ts) -> x == th.
Proof.
  induction Ts as [|T1 r IH]; intros th T0 H0 Hall x Hx; [destruct Hx|].
  cbn [th_hist] in Hx. assert (H1 : T1 == Tref) by (apply Hall; left; reflexivity).
  assert (E : th_step a th T0 T1 == th) by (apply th_step_same; lra).
  destruct Hx as [<- | Hx]; [exact E|].
  rewrite <- E. apply (IH (th_step a th T0 T1) T1 H1); [|exact Hx].
  intros T HT. apply Hall. right. exact HT.
Qed.

(* ---- expansion laws for which the trapezoidal rule is exact ----------------------------------- *)
Section Potential.
  Variable a F : Q -> Q.
  Hypothesis F_proper : forall x y, x == y -> F x == F y.
  Hypothesis trapezoid_exact : forall T0 T1, (a T1 + a T0) / 2 * (T1 - T0) == F T1 - F T0.

  Theorem th_hist_potential : forall Ts th T0 k, (k < length Ts)%nat ->
    nth k (th_hist a th T0 Ts) 0 == th + (F (nth k Ts 0) - F T0).
  Proof.
    induction Ts as [|T1 r IH]; intros th T0 k Hk; [cbn in Hk; lia|].
    cbn [th_hist]. destruct k as [|k]; cbn [nth].
    - unfold th_step. rewrite trapezoid_exact. ring.
    - rewrite IH by (cbn [length] in Hk; lia). unfold th_step. rewrite trapezoid_exact. ring.
  Qed.

  Lemma th_end_potential Ts th T0 : Ts <> [] -> th_end a th T0 Ts == th + (F (last Ts T0) - F T0).
  Proof.
    intros NE. unfold th_end.
    assert (L : (length Ts - 1 < length Ts)%nat) by (destruct Ts; [congruence | cbn; lia]).
    rewrite <- (nth_last_eq Ts T0), <- (nth_last_eq (th_hist a th T0 Ts) th), th_hist_length.
    rewrite (nth_indep _ th 0) by (rewrite th_hist_length; exact L).
    rewrite (nth_indep Ts T0 0) by exact L.
    apply th_hist_potential. exact L.
  Qed.

  (* cutting a stored step into n equal sub-increments does not change what is stored *)
  Lemma sub_temps_last n T0 T1 : (0 < n)%nat -> last (sub_temps n T0 T1) T0 == T1.
  Proof.
    intros Hn. unfold sub_temps. destruct n as [|n]; [lia|].
    rewrite seq_S, map_app. cbn [map]. rewrite last_last.
    replace (1 + n)%nat with (S n) by lia.
    assert (P : 0 < qnat (S n)) by (unfold qnat; change 0 with (inject_Z 0); rewrite <- Zlt_Qlt; lia).
    field. lra.
  Qed.

  Lemma th_end_sub n th T0 T1 : (0 < n)%nat -> th_end a th T0 (sub_temps n T0 T1) == th_step a th T0 T1.
  Proof.
    intros Hn. rewrite th_end_potential.
    - rewrite (F_proper _ _ (sub_temps_last n T0 T1 Hn)). unfold th_step. rewrite trapezoid_exact. ring.
    - unfold sub_temps. destruct n; [lia|]. cbn. discriminate.
  Qed.

  Theorem th_hist_sub_potential : forall Ts subs th T0 k, Forall (fun n => (0 < n)%nat) subs -> (k < length Ts)%nat ->
    nth k (th_hist_sub a th T0 Ts subs) 0 == th + (F (nth k Ts 0) - F T0).
  Proof.
    induction Ts as [|T1 r IH]; intros subs th T0 k Hs Hk; [cbn in Hk; lia|].
    cbn [th_hist_sub].
    assert (Hn : (0 < match subs with [] => 1 | n :: _ => n end)%nat) by (destruct subs; [lia | inversion Hs; assumption]).
    assert (Ht : Forall (fun n => (0 < n)%nat) (tl subs)) by (destruct subs; [constructor | inversion Hs; assumption]).
    destruct k as [|k]; cbn [nth].
    - rewrite th_end_sub by exact Hn. unfold th_step. rewrite trapezoid_exact. ring.
    - rewrite IH by (try exact Ht; cbn [length] in Hk; lia).
      rewrite th_end_sub by exact Hn. unfold th_step. rewrite trapezoid_exact. ring.
  Qed.

  Theorem subdivision_independent Ts subs th T0 k : Forall (fun n => (0 < n)%nat) subs -> (k < length Ts)%nat ->
    nth k (th_hist_sub a th T0 Ts subs) 0 == nth k (th_hist a th T0 Ts) 0.
  Proof. intros Hs Hk. rewrite th_hist_sub_potential, th_hist_potential by assumption. reflexivity. Qed.
End Potential.

(* constant and affine expansion coefficients are such laws *)
Theorem th_hist_constant c Ts th T0 k : (k < length Ts)%nat ->
  nth k (th_hist (fun _ => c) th T0 Ts) 0 == th + c * (nth k Ts 0 - T0).
Proof.
  intros Hk. rewrite (th_hist_potential (fun _ => c) (fun T => c * T)) by (try exact Hk; intros; field).
  ring.
Qed.

Theorem th_hist_affine p q Ts th T0 k : (k < length Ts)%nat ->
  nth k (th_hist (fun T => p + q * T) th T0 Ts) 0 == th + p * (nth k Ts 0 - T0) + q * (nth k Ts 0 * nth k Ts 0 - T0 * T0) / 2.
Proof.
  intros Hk. rewrite (th_hist_potential (fun T => p + q * T) (fun T => p * T + q * T * T / 2)) by (try exact Hk; intros; field).
  field.
Qed.

Theorem subdivision_independent_affine p q Ts subs th T0 k : Forall (fun n => (0 < n)%nat) subs -> (k < length Ts)%nat ->
  nth k (th_hist_sub (fun T => p + q * T) th T0 Ts subs) 0 == nth k (th_hist (fun T => p + q * T) th T0 Ts) 0.
Proof.
  intros Hs Hk. apply (subdivision_independent (fun T => p + q * T) (fun T => p * T + q * T * T / 2)); try assumption.
  - intros x y E. rewrite E. reflexivity.
  - intros. field.
Qed.

(* ... and for a general coefficient the stored thermal strain does depend on the sub-increments *)
Theorem subdivision_dependent_refuted :
  exists a : Q -> Q, ~ th_end a 0 0 (sub_temps 2 0 1) == th_step a 0 0 1.
Proof. exists (fun T => T * T). vm_compute. discriminate. Qed.

(* ---- tensors ------------------------------------------------------------------------------------- *)
Lemma partition e th : teq (tadd (tsub e th) th) e.
Proof. intros i j _ _. unfold tadd, tsub. ring. Qed.

Lemma iso_symmetric x : symmetric (iso x).
Proof. intros i j. unfold iso. rewrite (Nat.eqb_sym j i). reflexivity. Qed.

Lemma iso_isotropic x i j : iso x i j == (if Nat.eqb i j then x else 0).
Proof. reflexivity. Qed.

Lemma sym_grad_symmetric g : symmetric (sym_grad g).
Proof. intros i j. unfold sym_grad. field. Qed.

Lemma full_symmetric s : symmetric (full s).
Proof. intros i j. destruct i as [|[|[|i]]], j as [|[|[|j]]]; reflexivity. Qed.

Lemma tsub_symmetric a b : symmetric a -> symmetric b -> symmetric (tsub a b).
Proof. intros Ha Hb i j. unfold tsub. rewrite (Ha i j), (Hb i j). reflexivity. Qed.

Lemma hooke_symmetric lam mu e : symmetric e -> symmetric (hooke lam mu e).
Proof. intros He i j. unfold hooke. rewrite (Nat.eqb_sym j i), (He i j). reflexivity. Qed.

(* mechanical strain of a symmetric-gradient total strain and an isotropic thermal strain *)
Theorem mechanical_symmetric g x : symmetric (tsub (sym_grad g) (iso x)).
Proof. apply tsub_symmetric; [apply sym_grad_symmetric | apply iso_symmetric]. Qed.

(* free expansion: total strain equal to the isotropic thermal strain leaves no stress ... *)
Theorem free_expansion_no_stress lam mu x e : teq e (iso x) -> teq (hooke lam mu (tsub e (iso x))) (fun _ _ => 0).
Proof.
  intros He i j Hi Hj.
  assert (A0 := He 0%nat 0%nat ltac:(lia) ltac:(lia)). assert (A1 := He 1%nat 1%nat ltac:(lia) ltac:(lia)).
  assert (A2 := He 2%nat 2%nat ltac:(lia) ltac:(lia)). assert (Aij := He i j Hi Hj).
  unfold hooke, trace, tsub. unfold iso in *. cbn [Nat.eqb] in *. cbv beta.
  destruct (Nat.eqb i j); [rewrite A0, A1, A2, Aij; ring | rewrite Aij; ring].
Qed.

(* ... and with a positive shear and bulk modulus only such a strain does *)
Theorem no_stress_only_free_expansion lam mu x e : 0 < mu -> 0 < 3 * lam + 2 * mu ->
  teq (hooke lam mu (tsub e (iso x))) (fun _ _ => 0) -> teq e (iso x).
Proof.
  intros Hmu Hk H.
  assert (H00 := H 0%nat 0%nat ltac:(lia) ltac:(lia)). assert (H11 := H 1%nat 1%nat ltac:(lia) ltac:(lia)).
  assert (H22 := H 2%nat 2%nat ltac:(lia) ltac:(lia)).
  unfold hooke, trace, tsub, iso in H00, H11, H22. cbn [Nat.eqb] in H00, H11, H22.
  set (t := e 0%nat 0%nat - x + (e 1%nat 1%nat - x) + (e 2%nat 2%nat - x)) in *.
  assert (T : (3 * lam + 2 * mu) * t == 0) by (unfold t in *; lra).
  assert (T0 : t == 0).
  { destruct (Qmult_integral _ _ T) as [X | X]; [lra | exact X]. }
  assert (LT : lam * (e 0%nat 0%nat - x + (e 1%nat 1%nat - x) + (e 2%nat 2%nat - x)) == 0) by (fold t; rewrite T0; ring).
  clear T T0 H00 H11 H22. clearbody t.
  intros i j Hi Hj. assert (Hij := H i j Hi Hj). unfold hooke, trace, tsub, iso in Hij |- *. cbv beta in Hij. cbn [Nat.eqb] in Hij.
  destruct (Nat.eqb i j).
  - assert (M : 2 * mu * (e i j - x) == 0) by lra.
    destruct (Qmult_integral _ _ M) as [X | X]; lra.
  - assert (M : 2 * mu * (e i j - 0) == 0) by lra.
    destruct (Qmult_integral _ _ M) as [X | X]; lra.
Qed.

(* clamped table look-up stays between the table ends *)
Lemma clamp_between lo hi x : lo <= hi -> lo <= clamp lo hi x <= hi.
Proof.
  intros H. unfold clamp. destruct (Qle_bool x lo) eqn:A; [lra|].
  destruct (Qle_bool hi x) eqn:B; [lra|].
  assert (~ x <= lo) by (intros X; apply Qle_bool_iff in X; congruence).
  assert (~ hi <= x) by (intros X; apply Qle_bool_iff in X; congruence). lra.
Qed.
