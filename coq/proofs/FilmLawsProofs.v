(* The film-coefficient laws as they stand in thermalfluid.py (coq/gen/FilmLaws.v, regenerated from the source on
   every run) are the hand-written model of model/Film.v, definition by definition (syntactic equalities). *)
From Coq Require Import QArith Qminmax List Bool String.
From SV Require Import model.Film gen.FilmLaws.
Import ListNotations.
Open Scope Q_scope.

Lemma gen_T_eff_is_model f T : gen_T_eff f T = T_eff f T.
Proof. reflexivity. Qed.

Lemma gen_properties_are_model f T :
  gen_cp f T = cp f T /\ gen_rho f T = rho f T /\ gen_mu f T = mu f T /\ gen_k f T = kc f T.
Proof. repeat split; reflexivity. Qed.

Lemma gen_reynolds_is_model f T u r : gen_reynolds f T u r = reynolds f T u r.
Proof. reflexivity. Qed.

Lemma gen_prandtl_is_model f T : gen_prandtl f T = prandtl f T.
Proof. reflexivity. Qed.

Lemma gen_nusselt_is_model gn f T u r : gen_nusselt gn f T u r = nusselt gn f T u r.
Proof. reflexivity. Qed.

Lemma gen_film_is_model gn f T u r : gen_film gn f T u r = film gn f T u r.
Proof. reflexivity. Qed.

(* the friction factor and the Gnielinski value the turbulent branch evaluates (the real function of
   proofs/Gnielinski.v: gg re = 1 / (0.79 ln re - 1.64)^2 / 8, gnu = gg (re - 1000) pr / (1 + 12.7 sqrt gg (pr^(2/3) - 1))) *)
Lemma gen_gnielinski_text :
  gen_friction_source = "(0.79*jnp.log(re)-1.64)**(-2.0)"%string /\
  gen_gnielinski_source = "f/8.0*(re-1000.0)*pr/(1.0+12.7*(f/8.0)**0.5*(pr**(2.0/3.0)-1.0))"%string.
Proof. split; reflexivity. Qed.

(* constructor defaults: floor 1e-8, window [0, 2000], laminar below Re = 2000 with Nu = 4.01; each stored as given *)
Lemma gen_defaults_are_documented :
  gen_defaults = [("film_min"%string, 1 # 100000000); ("T_max"%string, 2000 # 1); ("T_min"%string, 0 # 1);
                  ("laminar_cutoff"%string, 2000 # 1); ("laminar_value"%string, 401 # 100)]
  /\ forallb (fun kv => String.eqb (fst kv) (snd kv)) gen_stored = true.
Proof. split; reflexivity. Qed.
