(* Conservation of stored heat by one backward-Euler step of the model
   (model/Thermal.v): the weighted sum of the real-node equations telescopes in
   each grid direction; what remains is the exchange with the two radial ghost
   layers, which the ghost rows tie to the wall data. *)
From Coq Require Import QArith Qabs List Bool ZArith Lia Lqa.
From SV Require Import theory.Sums model.Thermal.
Import ListNotations.
Open Scope Q_scope.

Definition sum3 (c : cfg) (f : nat -> nat -> nat -> Q) : Q :=
  sumL (fun i => sumL (fun j => sumL (fun k => f i j k) (krange c)) (jrange c)) (irange c).

Definition sum_jk (c : cfg) (f : nat -> nat -> Q) : Q :=
  sumL (fun j => sumL (fun k => f j k) (krange c)) (jrange c).

(* heat (in units of r * T per unit dr dtheta dz) entering through the two
   radial ghost layers *)
Definition wall_in_inner (c : cfg) (T : field) (j k : nat) : Q :=
  g_r c 0%nat j k * (T 0%nat j k - T 1%nat j k).
Definition wall_in_outer (c : cfg) (T : field) (j k : nat) : Q :=
  g_r c (nr c) j k * (T (S (nr c)) j k - T (nr c) j k).

(* coefficient tables are periodic images in their theta ghosts (hypothesis H2
   of DESIGN.md: they are evaluated on a ghost-consistent previous field) *)
Definition tables_periodic (c : cfg) : Prop :=
  has_t c = true -> forall i k, cc c i 0%nat k == cc c i (nt c) k /\ cc c i (S (nt c)) k == cc c i 1%nat k.

Definition rad_pos (c : cfg) : Prop := forall i, In i (irange c) -> 0 < rad c i.

Lemma sumL_lin3 {A} (q : Q) (f a b d : A -> Q) l :
  (forall x, In x l -> f x == q * (a x + b x + d x)) ->
  sumL f l == q * (sumL a l + sumL b l + sumL d l).
Proof.
  induction l as [|y r IH]; intros H; cbn [sumL]; [ring|].
  rewrite (H y) by (left; reflexivity).
  rewrite IH by (intros x Hx; apply H; right; exact Hx). ring.
Qed.

Section Conservation.
Variable c : cfg.
Variables T0 T : field.
Hypothesis Hsteady : steady c = false.
Hypothesis Hrad : rad_pos c.
Hypothesis Htab : tables_periodic c.
Hypothesis HE : Eqs c T0 T.

Let Fr (j k i : nat) : Q := g_r c i j k * (T (S i) j k - T i j k).
Let Gt (i k j : nat) : Q := g_t c i j k * (T i (S j) k - T i j k).
Let Hz (i j k : nat) : Q := g_z c i j k * (T i j (S k) - T i j k).

Lemma node_weighted i j k :
  In i (irange c) -> In j (jrange c) -> In k (krange c) ->
  rad c i * (T i j k - T0 i j k) ==
  dt c * ((Fr j k i - Fr j k (pred i))
          + (if has_t c then (Gt i k j - Gt i k (pred j)) / rad c i else 0)
          + (if has_z c then rad c i * (Hz i j k - Hz i j (pred k)) else 0)).
Proof.
  intros Hi Hj Hk.
  destruct HE as (Hn & _). specialize (Hn i j k Hi Hj Hk).
  unfold res_node in Hn. rewrite Hsteady in Hn.
  pose proof (Hrad i Hi) as Hr.
  assert (E : T i j k - T0 i j k == dt c * Lap c T i j k) by lra.
  rewrite E. unfold Lap, L_r, L_t, L_z, Fr, Gt, Hz.
  assert (Hi1 : S (pred i) = i) by (unfold irange in Hi; apply in_seq in Hi; lia).
  rewrite Hi1.
  assert (Hj1 : has_t c = true -> S (pred j) = j).
  { intros Ht. unfold jrange in Hj. rewrite Ht in Hj. apply in_seq in Hj. lia. }
  assert (Hk1 : has_z c = true -> S (pred k) = k).
  { intros Hz'. unfold krange in Hk. rewrite Hz' in Hk. apply in_seq in Hk. lia. }
  destruct (has_t c), (has_z c); cbv beta iota;
    try rewrite (Hj1 eq_refl); try rewrite (Hk1 eq_refl); field; lra.
Qed.

Lemma sum3_split (a b d : nat -> nat -> nat -> Q) :
  sum3 c (fun i j k => dt c * (a i j k + b i j k + d i j k)) ==
  dt c * (sum3 c a + sum3 c b + sum3 c d).
Proof.
  unfold sum3.
  apply sumL_lin3. intros i _.
  apply sumL_lin3. intros j _.
  apply sumL_lin3. intros k _. reflexivity.
Qed.

(* radial direction: telescopes along i *)
Lemma radial_telescopes :
  sum3 c (fun i j k => Fr j k i - Fr j k (pred i)) ==
  sum_jk c (fun j k => Fr j k (nr c) - Fr j k 0%nat).
Proof.
  unfold sum3, sum_jk.
  rewrite sumL_swap. apply sumL_ext. intros j _.
  rewrite sumL_swap. apply sumL_ext. intros k _.
  unfold irange. apply sumL_telescope.
Qed.

(* circumferential direction: telescopes along j and closes by periodicity *)
Lemma circ_telescopes :
  sum3 c (fun i j k => if has_t c then (Gt i k j - Gt i k (pred j)) / rad c i else 0) == 0.
Proof.
  unfold sum3. apply sumL_zero_ext. intros i Hi.
  destruct (has_t c) eqn:Ht.
  - rewrite sumL_swap. apply sumL_zero_ext. intros k Hk.
    unfold jrange. rewrite Ht.
    pose proof (Hrad i Hi) as Hr.
    rewrite (sumL_ext _ (fun j => (1 / rad c i) * (Gt i k j - Gt i k (pred j)))).
    2:{ intros j _. field. lra. }
    rewrite sumL_scale. rewrite sumL_telescope.
    destruct HE as (_ & _ & Hper & _). destruct (Hper Ht i k Hi Hk) as [P0 P1].
    destruct (Htab Ht i k) as [C0 C1].
    unfold Gt, g_t, ch_t. rewrite P0, P1, C0, C1. unfold Qdiv. ring.
  - apply sumL_zero_ext. intros j _. apply sumL_zero.
Qed.

(* axial direction: telescopes along k and closes by the zero-gradient ends *)
Lemma axial_telescopes :
  sum3 c (fun i j k => if has_z c then rad c i * (Hz i j k - Hz i j (pred k)) else 0) == 0.
Proof.
  unfold sum3. apply sumL_zero_ext. intros i Hi. apply sumL_zero_ext. intros j Hj.
  destruct (has_z c) eqn:Hzz.
  - unfold krange. rewrite Hzz. rewrite sumL_scale. rewrite sumL_telescope.
    destruct HE as (_ & _ & _ & Hax). destruct (Hax Hzz i j Hi Hj) as [A0 A1].
    unfold Hz. rewrite A0, A1. ring.
  - apply sumL_zero.
Qed.

Theorem step_conserves :
  sum3 c (fun i j k => rad c i * (T i j k - T0 i j k)) ==
  dt c * sum_jk c (fun j k => wall_in_inner c T j k + wall_in_outer c T j k).
Proof.
  transitivity (sum3 c (fun i j k => dt c * ((Fr j k i - Fr j k (pred i))
          + (if has_t c then (Gt i k j - Gt i k (pred j)) / rad c i else 0)
          + (if has_z c then rad c i * (Hz i j k - Hz i j (pred k)) else 0)))).
  { unfold sum3. apply sumL_ext. intros i Hi. apply sumL_ext. intros j Hj. apply sumL_ext. intros k Hk.
    apply (node_weighted i j k Hi Hj Hk). }
  rewrite (sum3_split (fun i j k => Fr j k i - Fr j k (pred i))
                      (fun i j k => if has_t c then (Gt i k j - Gt i k (pred j)) / rad c i else 0)
                      (fun i j k => if has_z c then rad c i * (Hz i j k - Hz i j (pred k)) else 0)).
  rewrite radial_telescopes, circ_telescopes, axial_telescopes.
  unfold sum_jk, wall_in_inner, wall_in_outer, Fr.
  assert (X : forall a b, a == b -> dt c * (a + 0 + 0) == dt c * b) by (intros a b H; rewrite H; ring).
  apply X. apply sumL_ext. intros j _. apply sumL_ext. intros k _. ring.
Qed.

(* what the ghost rows make of the exchange terms, per wall kind *)
Lemma inner_exchange j k : In j (jrange c) -> In k (krange c) -> 0 < kk c 1%nat j k -> 0 < dr c ->
  wall_in_inner c T j k ==
  match inner c with
  | Ins => 0
  | Fixed _ => wall_in_inner c T j k
  | Flux q => rh c 0%nat * ch_r c 0%nat j k * q j k / (kk c 1%nat j k * dr c)
  | Conv h tf => rh c 0%nat * ch_r c 0%nat j k * (h j k * (tf j k - T 1%nat j k)) / (kk c 1%nat j k * dr c)
  end.
Proof.
  intros Hj Hk Hkk Hdr. destruct HE as (_ & Hw & _). destruct (Hw j k Hj Hk) as [Hin _].
  unfold res_inner in Hin. unfold wall_in_inner, g_r.
  destruct (inner c) as [|g|q|h tf].
  - assert (E : T 0%nat j k - T 1%nat j k == 0) by lra. rewrite E. ring.
  - reflexivity.
  - assert (E : T 0%nat j k - T 1%nat j k == dr c * q j k / kk c 1%nat j k) by lra. rewrite E.
    field. split; lra.
  - assert (E : T 0%nat j k - T 1%nat j k == dr c * h j k * (tf j k - T 1%nat j k) / kk c 1%nat j k).
    { assert (Y : dr c * h j k * (tf j k - T 1%nat j k) / kk c 1%nat j k ==
                 - (dr c * h j k * (T 1%nat j k - tf j k) / kk c 1%nat j k)) by (field; lra).
      rewrite Y. lra. }
    rewrite E.
    field. split; lra.
Qed.

Lemma outer_exchange j k : In j (jrange c) -> In k (krange c) -> 0 < kk c (nr c) j k -> 0 < dr c ->
  wall_in_outer c T j k ==
  match outer c with
  | Ins => 0
  | Fixed _ => wall_in_outer c T j k
  | Flux q => rh c (nr c) * ch_r c (nr c) j k * q j k / (kk c (nr c) j k * dr c)
  | Conv h tf => rh c (nr c) * ch_r c (nr c) j k * (h j k * (tf j k - T (nr c) j k)) / (kk c (nr c) j k * dr c)
  end.
Proof.
  intros Hj Hk Hkk Hdr. destruct HE as (_ & Hw & _). destruct (Hw j k Hj Hk) as [_ Hout].
  unfold res_outer in Hout. unfold wall_in_outer, g_r.
  destruct (outer c) as [|g|q|h tf].
  - assert (E : T (S (nr c)) j k - T (nr c) j k == 0) by lra. rewrite E. ring.
  - reflexivity.
  - assert (E : T (S (nr c)) j k - T (nr c) j k == dr c * q j k / kk c (nr c) j k) by lra. rewrite E.
    field. split; lra.
  - assert (E : T (S (nr c)) j k - T (nr c) j k == dr c * h j k * (tf j k - T (nr c) j k) / kk c (nr c) j k).
    { assert (Y : dr c * h j k * (tf j k - T (nr c) j k) / kk c (nr c) j k ==
                 - (dr c * h j k * (T (nr c) j k - tf j k) / kk c (nr c) j k)) by (field; lra).
      rewrite Y. lra. }
    rewrite E.
    field. split; lra.
Qed.

End Conservation.

(* ---- corollaries ---------------------------------------------------------- *)
Definition coeffs_pos (c : cfg) : Prop := forall i j k, 0 < cc c i j k /\ 0 < kk c i j k.

Definition wall_nonneg_flux (w : wall) : Prop :=
  match w with
  | Ins => True
  | Flux q => forall j k, 0 <= q j k
  | _ => False
  end.

(* insulated on both walls: the weighted stored heat is unchanged, exactly *)
Theorem insulated_exact c T0 T :
  steady c = false -> rad_pos c -> tables_periodic c -> Eqs c T0 T ->
  inner c = Ins -> outer c = Ins -> coeffs_pos c -> 0 < dr c ->
  sum3 c (fun i j k => rad c i * (T i j k - T0 i j k)) == 0.
Proof.
  intros Hs Hr Ht HE Hi Ho Hc Hdr.
  rewrite (step_conserves c T0 T Hs Hr Ht HE).
  unfold sum_jk. rewrite sumL_zero_ext; [ring|]. intros j Hj. apply sumL_zero_ext. intros k Hk.
  rewrite (inner_exchange c T0 T HE j k Hj Hk (proj2 (Hc _ _ _)) Hdr).
  rewrite (outer_exchange c T0 T HE j k Hj Hk (proj2 (Hc _ _ _)) Hdr).
  rewrite Hi, Ho. ring.
Qed.

Lemma rh_pos_all c : 0 < dr c -> dr c < 2 * ri c -> forall i, 0 < rh c i.
Proof.
  intros Hdr H1 i. unfold rh, rad.
  assert (0 <= inject_Z (Z.of_nat i)).
  { change 0 with (inject_Z 0). rewrite <- Zle_Qle. lia. }
  assert (E : inject_Z (Z.of_nat (S i)) == inject_Z (Z.of_nat i) + 1).
  { rewrite Nat2Z.inj_succ. unfold Z.succ. rewrite inject_Z_plus. reflexivity. }
  rewrite E. apply Qlt_shift_div_l; [lra|]. nra.
Qed.

(* prescribed non-negative flux (either wall, the other insulated or also a
   non-negative flux) never lowers the stored heat: positive flux heats *)
Theorem flux_heats c T0 T :
  steady c = false -> rad_pos c -> tables_periodic c -> Eqs c T0 T ->
  coeffs_pos c -> 0 < dr c -> 0 < dt c -> dr c < 2 * ri c ->
  wall_nonneg_flux (inner c) -> wall_nonneg_flux (outer c) ->
  0 <= sum3 c (fun i j k => rad c i * (T i j k - T0 i j k)).
Proof.
  intros Hs Hr Ht HE Hc Hdr Hdt H1 Hi Ho.
  rewrite (step_conserves c T0 T Hs Hr Ht HE).
  apply Qmult_le_0_compat; [lra|].
  unfold sum_jk. apply sumL_nonneg. intros j Hj. apply sumL_nonneg. intros k Hk.
  rewrite (inner_exchange c T0 T HE j k Hj Hk (proj2 (Hc _ _ _)) Hdr).
  rewrite (outer_exchange c T0 T HE j k Hj Hk (proj2 (Hc _ _ _)) Hdr).
  pose proof (rh_pos_all c Hdr H1) as Hrh.
  assert (Hch : forall i, 0 < ch_r c i j k).
  { intros i. unfold ch_r. destruct (Hc i j k) as [A _]. destruct (Hc (S i) j k) as [B _].
    apply Qlt_shift_div_l; lra. }
  assert (P2 : forall i i' q, 0 <= q -> 0 < kk c i j k ->
              0 <= rh c i' * ch_r c i' j k * q / (kk c i j k * dr c)).
  { intros i i' q Hq Hk'.
    assert (D : 0 < kk c i j k * dr c) by (apply Qmult_lt_0_compat; assumption).
    apply Qle_shift_div_l; [exact D|]. rewrite Qmult_0_l.
    apply Qmult_le_0_compat; [|exact Hq].
    apply Qlt_le_weak. apply Qmult_lt_0_compat; [apply Hrh | apply Hch]. }
  destruct (inner c) as [|g|q|h tf], (outer c) as [|g'|q'|h' tf']; cbn in Hi, Ho; try contradiction.
  - lra.
  - pose proof (P2 (nr c) (nr c) (q' j k) (Ho j k) (proj2 (Hc _ _ _))). lra.
  - pose proof (P2 1%nat 0%nat (q j k) (Hi j k) (proj2 (Hc _ _ _))). lra.
  - pose proof (P2 1%nat 0%nat (q j k) (Hi j k) (proj2 (Hc _ _ _))).
    pose proof (P2 (nr c) (nr c) (q' j k) (Ho j k) (proj2 (Hc _ _ _))). lra.
Qed.

(* the discrete wall input differs from flux times true area by exactly the
   half-node radius factor: 1 - dr/(2 r_i) inside, 1 + dr/(2 r_o) outside *)
Lemma inner_radius_factor c : ~ ri c == 0 -> rh c 0%nat == rad c 1%nat * (1 - dr c / (2 * ri c)).
Proof. intros H. unfold rh, rad. cbn [Z.of_nat]. change (inject_Z 0) with 0. change (inject_Z (Z.pos 1)) with 1. field. exact H. Qed.

Lemma outer_radius_factor c n : ~ rad c n == 0 -> rh c n == rad c n * (1 + dr c / (2 * rad c n)).
Proof.
  intros H. unfold rh.
  assert (E : rad c (S n) == rad c n + dr c).
  { unfold rad. rewrite Nat2Z.inj_succ. unfold Z.succ. rewrite inject_Z_plus. change (inject_Z 1) with 1. ring. }
  rewrite E. field. exact H.
Qed.

(* ---- steady mode: what enters through one wall leaves through the other ------- *)
Theorem steady_conserves c T0 T :
  steady c = true -> rad_pos c -> tables_periodic c -> Eqs c T0 T ->
  sum_jk c (fun j k => wall_in_inner c T j k + wall_in_outer c T j k) == 0.
Proof.
  intros Hs Hrad Htab HE.
  pose (Fr := fun (j k i : nat) => g_r c i j k * (T (S i) j k - T i j k)).
  pose (Gt := fun (i k j : nat) => g_t c i j k * (T i (S j) k - T i j k)).
  pose (Hz := fun (i j k : nat) => g_z c i j k * (T i j (S k) - T i j k)).
  assert (NW : forall i j k, In i (irange c) -> In j (jrange c) -> In k (krange c) ->
            0 == 1 * ((Fr j k i - Fr j k (pred i))
                 + (if has_t c then (Gt i k j - Gt i k (pred j)) / rad c i else 0)
                 + (if has_z c then rad c i * (Hz i j k - Hz i j (pred k)) else 0))).
  { intros i j k Hi Hj Hk. destruct HE as (Hn & _). specialize (Hn i j k Hi Hj Hk).
    unfold res_node in Hn. rewrite Hs in Hn. pose proof (Hrad i Hi) as Hr.
    assert (E : rad c i * Lap c T i j k == 0) by (assert (Lap c T i j k == 0) by lra; rewrite H; ring).
    transitivity (rad c i * Lap c T i j k); [symmetry; exact E|]. unfold Lap, L_r, L_t, L_z, Fr, Gt, Hz.
    assert (Hi1 : S (pred i) = i) by (unfold irange in Hi; apply in_seq in Hi; lia).
    rewrite Hi1.
    assert (Hj1 : has_t c = true -> S (pred j) = j).
    { intros Ht. unfold jrange in Hj. rewrite Ht in Hj. apply in_seq in Hj. lia. }
    assert (Hk1 : has_z c = true -> S (pred k) = k).
    { intros Hz'. unfold krange in Hk. rewrite Hz' in Hk. apply in_seq in Hk. lia. }
    destruct (has_t c), (has_z c); cbv beta iota;
      try rewrite (Hj1 eq_refl); try rewrite (Hk1 eq_refl); field; lra. }
  assert (Z : sum3 c (fun _ _ _ => 0) == 0).
  { unfold sum3. apply sumL_zero_ext. intros i _. apply sumL_zero_ext. intros j _. apply sumL_zero. }
  assert (S1 : sum3 c (fun _ _ _ => 0) ==
               1 * (sum3 c (fun i j k => Fr j k i - Fr j k (pred i))
                    + sum3 c (fun i j k => if has_t c then (Gt i k j - Gt i k (pred j)) / rad c i else 0)
                    + sum3 c (fun i j k => if has_z c then rad c i * (Hz i j k - Hz i j (pred k)) else 0))).
  { unfold sum3. apply sumL_lin3. intros i Hi. apply sumL_lin3. intros j Hj. apply sumL_lin3. intros k Hk.
    apply (NW i j k Hi Hj Hk). }
  rewrite Z in S1.
  assert (R1 : sum3 c (fun i j k => Fr j k i - Fr j k (pred i)) ==
               sum_jk c (fun j k => Fr j k (nr c) - Fr j k 0%nat)) by exact (radial_telescopes c T).
  assert (R2 : sum3 c (fun i j k => if has_t c then (Gt i k j - Gt i k (pred j)) / rad c i else 0) == 0)
    by exact (circ_telescopes c T0 T Hrad Htab HE).
  assert (R3 : sum3 c (fun i j k => if has_z c then rad c i * (Hz i j k - Hz i j (pred k)) else 0) == 0)
    by exact (axial_telescopes c T0 T HE).
  rewrite R1, R2, R3 in S1.
  unfold sum_jk in *. unfold wall_in_inner, wall_in_outer.
  assert (E : sumL (fun j => sumL (fun k => g_r c 0 j k * (T 0%nat j k - T 1%nat j k)
                                          + g_r c (nr c) j k * (T (S (nr c)) j k - T (nr c) j k)) (krange c)) (jrange c)
              == sumL (fun j => sumL (fun k => Fr j k (nr c) - Fr j k 0%nat) (krange c)) (jrange c)).
  { apply sumL_ext. intros j _. apply sumL_ext. intros k _. unfold Fr. ring. }
  rewrite E. lra.
Qed.
