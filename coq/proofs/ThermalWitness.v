(* Soundness of the executable certificate check, and the witness showing that
   hypothesis H1 (dr < 2 r_inner) of the maximum principle is needed: for a
   thick tube on a coarse radial grid the wall node overshoots the fluid. *)
From Coq Require Import QArith Qabs List Bool ZArith Lia Lqa.
From SV Require Import theory.Sums model.Thermal proofs.ThermalConservation proofs.ThermalMaxPrinciple.
Import ListNotations.
Open Scope Q_scope.

Lemma small0 res mag : small 0 res mag = true -> res == 0.
Proof.
  unfold small. intros H. apply Qle_bool_iff in H. rewrite Qmult_0_l in H.
  pose proof (Qabs_nonneg res) as N.
  assert (E : Qabs res == 0) by lra.
  destruct (Qlt_le_dec res 0) as [Hn | Hp].
  - rewrite Qabs_neg in E by lra. lra.
  - rewrite Qabs_pos in E by lra. exact E.
Qed.

Lemma check_step_sound c T0 T : check_step 0 c T0 T = true -> Eqs c T0 T.
Proof.
  unfold check_step. rewrite !andb_true_iff. intros [[[Hn Hw] Hp] Ha]. repeat split.
  - intros i j k Hi Hj Hk. rewrite forallb_forall in Hn. specialize (Hn i Hi).
    rewrite forallb_forall in Hn. specialize (Hn j Hj). rewrite forallb_forall in Hn.
    apply (small0 _ _ (Hn k Hk)).
  - rewrite forallb_forall in Hw. specialize (Hw j H). rewrite forallb_forall in Hw. specialize (Hw k H0).
    apply andb_true_iff in Hw. apply (small0 _ _ (proj1 Hw)).
  - rewrite forallb_forall in Hw. specialize (Hw j H). rewrite forallb_forall in Hw. specialize (Hw k H0).
    apply andb_true_iff in Hw. apply (small0 _ _ (proj2 Hw)).
  - rewrite H in Hp. rewrite forallb_forall in Hp. specialize (Hp i H0). rewrite forallb_forall in Hp.
    specialize (Hp k H1). apply andb_true_iff in Hp. pose proof (small0 _ _ (proj1 Hp)). lra.
  - rewrite H in Hp. rewrite forallb_forall in Hp. specialize (Hp i H0). rewrite forallb_forall in Hp.
    specialize (Hp k H1). apply andb_true_iff in Hp. pose proof (small0 _ _ (proj2 Hp)). lra.
  - rewrite H in Ha. rewrite forallb_forall in Ha. specialize (Ha i H0). rewrite forallb_forall in Ha.
    specialize (Ha j H1). apply andb_true_iff in Ha. pose proof (small0 _ _ (proj1 Ha)). lra.
  - rewrite H in Ha. rewrite forallb_forall in Ha. specialize (Ha i H0). rewrite forallb_forall in Ha.
    specialize (Ha j H1). apply andb_true_iff in Ha. pose proof (small0 _ _ (proj2 Ha)). lra.
Qed.

(* r = 10, t = 9, nr = 3 (dr = 9/2 >= 2 r_inner = 2), convective inner wall,
   insulated outer wall, unit properties, one step of dt = 1000 from 300 K with
   a 500 K fluid *)
Definition wit_cfg : cfg :=
  mkCfg 3 1 1 false false (9 # 2) 1 1 1000 1 false
        (fun _ _ _ => 1) (fun _ _ _ => 1)
        (Conv (fun _ _ => 1) (fun _ _ => 500)) Ins.

Definition wit_T0 : field := fun _ _ _ => 300.
Definition wit_T : field :=
  fld [[[14086747117600 # 30606095723]]; [[109553936518300 # 214242670061]];
       [[105625801018300 # 214242670061]]; [[104572801018300 # 214242670061]];
       [[104572801018300 # 214242670061]]].

Lemma wit_eqs : Eqs wit_cfg wit_T0 wit_T.
Proof. apply check_step_sound. vm_compute. reflexivity. Qed.

(* every hypothesis of the maximum principle except H1 holds, the data lie in
   [300, 500], and the inner wall node ends above 500 *)
Lemma max_principle_needs_H1 :
  exists c T0 T,
    steady c = false /\ 0 < dt c /\ 0 < dr c /\ coeffs_pos c /\ 0 < ri c /\
    ~ (dr c < 2 * ri c) /\
    Eqs c T0 T /\
    (forall i j k, real c i j k -> 300 <= T0 i j k <= 500) /\
    wall_within c (inner c) 300 500 /\ wall_within c (outer c) 300 500 /\
    exists i j k, real c i j k /\ 500 < T i j k.
Proof.
  exists wit_cfg, wit_T0, wit_T.
  split; [reflexivity|].
  split; [cbn; lra|]. split; [cbn; lra|].
  split; [intros i j k; cbn; split; lra|].
  split; [cbn; lra|].
  split; [cbn; lra|].
  split; [exact wit_eqs|].
  split; [intros i j k _; unfold wit_T0; lra|].
  split; [cbn; intros j k _ _; split; [lra | split; lra] |].
  split; [exact I|].
  exists 1%nat, 0%nat, 0%nat. split.
  - unfold real, irange, jrange, krange; cbn. tauto.
  - vm_compute. reflexivity.
Qed.
