(* The Gnielinski correlation as written in thermalfluid.nusselt,
     f = (0.79 ln Re - 1.64)^-2,
     Nu = (f/8) (Re - 1000) Pr / (1 + 12.7 sqrt(f/8) (Pr^(2/3) - 1)),
   is non-decreasing in the Reynolds number from Re = 1000 on, for every Prandtl
   number >= 1.  Over the classical reals (Coquelicot derivatives; the one numeric bound, ln 1000 >= 5, from e <= 3). *)
From Coq Require Import Reals Lra.
From Coquelicot Require Import Coquelicot.
Open Scope R_scope.

Definition ga (re : R) : R := 79 / 100 * ln re - 164 / 100.
Definition gg (re : R) : R := / (8 * (ga re * ga re)).                 (* f / 8 *)
Definition gh (re : R) : R := (re - 1000) * gg re.
Definition gden (re q : R) : R := 1 + 127 / 10 * sqrt (gg re) * q.
Definition gnu (re pr q : R) : R := gh re * pr / gden re q.             (* q = Pr^(2/3) - 1 *)

(* ln 1000 >= 5 because e^5 <= 3^5 = 243 < 1000 *)
Lemma ln_1000 : 5 <= ln 1000.
Proof.
  assert (E : exp 5 <= 243).
  { replace 5 with (1 + 1 + 1 + 1 + 1) by ring. rewrite !exp_plus.
    pose proof exp_le_3 as H3. pose proof (exp_pos 1) as Hp. set (e := exp 1) in *.
    assert (A : e * e <= 9) by nra. assert (B : e * e * e <= 27) by nra. assert (C : e * e * e * e <= 81) by nra. nra. }
  rewrite <- (ln_exp 5). destruct (Rle_lt_or_eq_dec _ _ E) as [L | Q].
  - left. apply ln_increasing; [apply exp_pos | lra].
  - left. apply ln_increasing; [apply exp_pos | lra].
Qed.

Lemma ga_1000 : 23 / 10 < ga 1000.
Proof. unfold ga. pose proof ln_1000. lra. Qed.

Lemma ga_mono x y : 0 < x -> x <= y -> ga x <= ga y.
Proof.
  intros Hx Hxy. unfold ga. destruct (Req_dec x y) as [-> | N]; [lra|].
  assert (ln x < ln y) by (apply ln_increasing; lra). lra.
Qed.

Lemma ga_big re : 1000 <= re -> 23 / 10 < ga re.
Proof. intros H. pose proof ga_1000. pose proof (ga_mono 1000 re ltac:(lra) H). lra. Qed.

Definition dgh (re : R) : R := (ga re - 158 / 100 * ((re - 1000) / re)) / (8 * (ga re * ga re * ga re)).

Lemma gh_derive re : 1000 <= re -> is_derive gh re (dgh re).
Proof.
  intros H. pose proof (ga_big re H) as Ha. unfold gh, gg, dgh, ga in *.
  auto_derive.
  - repeat split; try lra. apply Rgt_not_eq. nra.
  - field. repeat split; try lra.
Qed.

Lemma dgh_pos re : 1000 <= re -> dgh re > 0.
Proof.
  intros H. pose proof (ga_big re H) as Ha. unfold dgh.
  assert (F : 0 <= (re - 1000) / re < 1).
  { split; [apply Rmult_le_pos; [lra | left; apply Rinv_0_lt_compat; lra]|].
    apply (Rmult_lt_reg_r re); [lra|]. unfold Rdiv. rewrite Rmult_assoc, Rinv_l by lra. lra. }
  apply Rdiv_lt_0_compat; [lra|].
  assert (0 < ga re * ga re * ga re) by (repeat apply Rmult_lt_0_compat; lra). lra.
Qed.

Lemma gh_increasing x y : 1000 <= x -> x <= y -> gh x <= gh y.
Proof.
  intros Hx Hxy. destruct (Req_dec x y) as [-> | N]; [lra|]. left.
  apply (incr_function_le gh 1000 p_infty dgh); cbn; try lra; try exact I.
  - intros z Hz _. apply gh_derive. exact Hz.
  - intros z Hz _. apply dgh_pos. exact Hz.
Qed.

Lemma gh_nonneg re : 1000 <= re -> 0 <= gh re.
Proof.
  intros H. pose proof (ga_big re H). unfold gh, gg. apply Rmult_le_pos; [lra|].
  left. apply Rinv_0_lt_compat. assert (0 < ga re * ga re) by (apply Rmult_lt_0_compat; lra). lra.
Qed.

Lemma gg_decreasing x y : 1000 <= x -> x <= y -> 0 < gg y <= gg x.
Proof.
  intros Hx Hxy. pose proof (ga_big x Hx). pose proof (ga_big y ltac:(lra)).
  pose proof (ga_mono x y ltac:(lra) Hxy).
  assert (P : 0 < 8 * (ga x * ga x)) by (assert (0 < ga x * ga x) by (apply Rmult_lt_0_compat; lra); lra).
  assert (Q : 8 * (ga x * ga x) <= 8 * (ga y * ga y)) by (assert (ga x * ga x <= ga y * ga y) by (apply Rmult_le_compat; lra); lra).
  unfold gg. split; [apply Rinv_0_lt_compat; lra | apply Rinv_le_contravar; assumption].
Qed.

Lemma gden_decreasing x y q : 0 <= q -> 1000 <= x -> x <= y -> 1 <= gden y q <= gden x q.
Proof.
  intros Hq Hx Hxy. destruct (gg_decreasing x y Hx Hxy) as [P L]. unfold gden.
  assert (S : sqrt (gg y) <= sqrt (gg x)) by (apply sqrt_le_1; lra).
  assert (0 <= sqrt (gg y)) by apply sqrt_pos.
  assert (0 <= 127 / 10 * sqrt (gg y) * q) by (apply Rmult_le_pos; [lra | exact Hq]).
  assert (127 / 10 * sqrt (gg y) * q <= 127 / 10 * sqrt (gg x) * q) by (apply Rmult_le_compat_r; [exact Hq | lra]).
  lra.
Qed.

Theorem gnielinski_monotone_in_re pr q x y :
  0 <= pr -> 0 <= q -> 1000 <= x -> x <= y -> gnu x pr q <= gnu y pr q.
Proof.
  intros Hpr Hq Hx Hxy. unfold gnu.
  destruct (gden_decreasing x y q Hq Hx Hxy) as [D1 D2].
  pose proof (gh_increasing x y Hx Hxy). pose proof (gh_nonneg x Hx).
  unfold Rdiv. apply Rmult_le_compat.
  - apply Rmult_le_pos; assumption.
  - left. apply Rinv_0_lt_compat. lra.
  - apply Rmult_le_compat_r; assumption.
  - apply Rinv_le_contravar; lra.
Qed.

(* the exponent term: Pr >= 1 makes Pr^(2/3) - 1 >= 0 *)
Lemma prandtl_term_nonneg pr : 1 <= pr -> 0 <= Rpower pr (2 / 3) - 1.
Proof.
  intros H. unfold Rpower.
  assert (0 <= ln pr) by (rewrite <- ln_1; destruct (Req_dec 1 pr) as [<- | N]; [lra | left; apply ln_increasing; lra]).
  assert (0 <= 2 / 3 * ln pr) by (apply Rmult_le_pos; lra).
  assert (1 <= exp (2 / 3 * ln pr)) by (rewrite <- exp_0; destruct (Req_dec 0 (2 / 3 * ln pr)) as [<- | N]; [lra | left; apply exp_increasing; lra]).
  lra.
Qed.

Theorem gnielinski_monotone pr x y :
  1 <= pr -> 1000 <= x -> x <= y ->
  gnu x pr (Rpower pr (2 / 3) - 1) <= gnu y pr (Rpower pr (2 / 3) - 1).
Proof. intros Hpr Hx Hxy. apply gnielinski_monotone_in_re; try assumption; [lra | apply prandtl_term_nonneg; exact Hpr]. Qed.

(* it is the expression of the code: (f/8)^0.5 is sqrt(f/8), f = (0.79 ln Re - 1.64)^-2 *)
Lemma gg_is_f_over_8 re : 1000 <= re -> gg re = / (ga re * ga re) / 8.
Proof. intros H. pose proof (ga_big re H). unfold gg. field. lra. Qed.
