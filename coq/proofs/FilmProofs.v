From Coq Require Import QArith Qminmax Qabs List Bool Lqa.
From SV Require Import model.Film.
Import ListNotations.
Open Scope Q_scope.

Lemma Qlt_bool_true a b : Qlt_bool a b = true <-> a < b.
Proof.
  unfold Qlt_bool. rewrite negb_true_iff. split; intros H.
  - apply Qnot_le_lt. intros C. apply Qle_bool_iff in C. congruence.
  - destruct (Qle_bool b a) eqn:E; auto. apply Qle_bool_iff in E. lra.
Qed.

(* ---- clipping ------------------------------------------------------------------- *)
Theorem T_eff_in_window f T : T_min f <= T_max f -> T_min f <= T_eff f T <= T_max f.
Proof.
  intros H. unfold T_eff. split; [apply Q.le_max_r|].
  apply Q.max_lub; [apply Q.le_min_r | exact H].
Qed.

Theorem T_eff_identity_inside f T : T_min f <= T <= T_max f -> T_eff f T == T.
Proof.
  intros [A B]. unfold T_eff. rewrite (Q.min_l T (T_max f)) by exact B. apply Q.max_l. exact A.
Qed.

Theorem T_eff_idempotent f T : T_min f <= T_max f -> T_eff f (T_eff f T) == T_eff f T.
Proof. intros H. apply T_eff_identity_inside. apply T_eff_in_window. exact H. Qed.

(* ---- the floor ------------------------------------------------------------------- *)
Theorem film_floor gn f T u r : film_min f <= film gn f T u r.
Proof. unfold film. apply Q.le_max_r. Qed.

Theorem film_positive gn f T u r : 0 < film_min f -> 0 < film gn f T u r.
Proof. intros H. pose proof (film_floor gn f T u r). lra. Qed.

(* ---- laminar / turbulent selection --------------------------------------------------- *)
Theorem laminar_value_below_cutoff gn f T u r :
  reynolds f (T_eff f T) u r < laminar_cutoff f -> nusselt gn f T u r = laminar_value f.
Proof. intros H. unfold nusselt. cbv zeta. apply Qlt_bool_true in H. rewrite H. reflexivity. Qed.

Theorem turbulent_is_correlation gn f T u r :
  laminar_cutoff f <= reynolds f (T_eff f T) u r ->
  nusselt gn f T u r = gn (reynolds f (T_eff f T) u r) (prandtl f (T_eff f T)).
Proof.
  intros H. unfold nusselt. cbv zeta.
  destruct (Qlt_bool (reynolds f (T_eff f T) u r) (laminar_cutoff f)) eqn:E; [|reflexivity].
  apply Qlt_bool_true in E. lra.
Qed.

(* ---- Reynolds number ------------------------------------------------------------------ *)
Theorem reynolds_linear_in_u f T u r c : reynolds f T (c * u) r == c * reynolds f T u r.
Proof. unfold reynolds. unfold Qdiv. ring. Qed.

Theorem reynolds_monotone_in_u f T u u' r :
  0 < rho f T -> 0 < mu f T -> 0 < r -> u <= u' -> reynolds f T u r <= reynolds f T u' r.
Proof.
  intros Hr Hm Hp Hu. unfold reynolds.
  apply Qle_shift_div_l; [exact Hm|].
  assert (E : rho f T * u * 2 * r / mu f T * mu f T == rho f T * u * 2 * r) by (field; lra).
  rewrite E.
  assert (P : 0 <= rho f T * 2 * r) by (apply Qmult_le_0_compat; [apply Qmult_le_0_compat|]; lra).
  assert (Q1 : (rho f T * 2 * r) * u <= (rho f T * 2 * r) * u').
  { rewrite (Qmult_comm _ u), (Qmult_comm _ u'). apply Qmult_le_compat_r; assumption. }
  lra.
Qed.

(* in the turbulent regime the film coefficient does not decrease with velocity,
   provided the correlation is non-decreasing in Re (validated numerically for
   Gnielinski on 2e3 <= Re <= 1e7, 0.1 <= Pr <= 1e3) *)
Theorem film_monotone_in_u_turbulent gn f T u u' r :
  (forall re re' pr, laminar_cutoff f <= re -> re <= re' -> gn re pr <= gn re' pr) ->
  0 < rho f (T_eff f T) -> 0 < mu f (T_eff f T) -> 0 < r -> 0 <= kc f T ->
  u <= u' -> laminar_cutoff f <= reynolds f (T_eff f T) u r ->
  film gn f T u r <= film gn f T u' r.
Proof.
  intros Hgn Hr Hm Hp Hk Hu Hturb.
  pose proof (reynolds_monotone_in_u f (T_eff f T) u u' r Hr Hm Hp Hu) as Hre.
  unfold film.
  rewrite (turbulent_is_correlation gn f T u r Hturb).
  rewrite (turbulent_is_correlation gn f T u' r) by lra.
  apply Q.max_le_compat_r.
  assert (G : gn (reynolds f (T_eff f T) u r) (prandtl f (T_eff f T)) <= gn (reynolds f (T_eff f T) u' r) (prandtl f (T_eff f T)))
    by (apply Hgn; assumption).
  apply Qle_shift_div_l; [lra|].
  assert (E : gn (reynolds f (T_eff f T) u r) (prandtl f (T_eff f T)) * kc f T / (2 * r) * (2 * r)
              == gn (reynolds f (T_eff f T) u r) (prandtl f (T_eff f T)) * kc f T) by (field; lra).
  rewrite E. apply Qmult_le_compat_r; assumption.
Qed.
