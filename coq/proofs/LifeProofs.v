(* Facts about the metallic-life model (model/Life.v): the envelope is
   star-shaped from the origin, so membership along a damage ray is antitone;
   the closed-form crossing is exactly the boundary; minima over points and
   tubes give "everything inside below the life, something outside above". *)
From Coq Require Import QArith Qabs Qround List Bool ZArith Lia Lqa Permutation.
From SV Require Import model.Life.
Import ListNotations.
Open Scope Q_scope.

Lemma Qlt_bool_iff a b : Qlt_bool a b = true <-> a < b.
Proof.
  unfold Qlt_bool. rewrite negb_true_iff. split; intros H.
  - apply Qnot_le_lt. intros C. apply Qle_bool_iff in C. congruence.
  - destruct (Qle_bool b a) eqn:E; auto. apply Qle_bool_iff in E. lra.
Qed.

Lemma Qlt_bool_false a b : Qlt_bool a b = false <-> b <= a.
Proof.
  unfold Qlt_bool. rewrite negb_false_iff. apply Qle_bool_iff.
Qed.

(* products of inequalities, spelled out (nra is avoided on purpose) *)
Lemma mul_le_l (a b c : Q) : 0 <= c -> a <= b -> a * c <= b * c.
Proof. intros. apply Qmult_le_compat_r; assumption. Qed.

Lemma mul_lt_l (a b c : Q) : 0 < c -> a < b -> a * c < b * c.
Proof. intros. apply Qmult_lt_compat_r; assumption. Qed.

Lemma div_le_iff (a b c : Q) : 0 < c -> (a <= b / c <-> a * c <= b).
Proof.
  intros Hc. split; intros H.
  - apply (mul_le_l _ _ c) in H; [|lra]. assert (E : b / c * c == b) by (field; lra). lra.
  - apply Qle_shift_div_l; assumption.
Qed.

Section Envelope.
Variables xk yk : Q.
Hypothesis Hx : 0 < xk < 1.
Hypothesis Hy : 0 < yk < 1.

(* the two branches, cleared of divisions *)
Lemma inside_spec df dc :
  inside xk yk df dc = true <->
  (df < xk /\ dc * xk <= xk - (1 - yk) * df) \/ (xk <= df /\ dc * (1 - xk) <= yk * (1 - df)).
Proof.
  unfold inside. destruct (Qlt_bool df xk) eqn:E.
  - apply Qlt_bool_iff in E. rewrite Qle_bool_iff.
    assert (R : (yk - 1) / (xk - 0) * (df - 0) + 1 == (xk - (1 - yk) * df) / xk) by (field; lra).
    rewrite R. rewrite (div_le_iff dc (xk - (1 - yk) * df) xk) by lra.
    split; [intros H; left; split; assumption | intros [[_ H] | [H _]]; [exact H | lra]].
  - apply Qlt_bool_false in E. rewrite Qle_bool_iff.
    assert (R : (0 - yk) / (1 - xk) * (df - xk) + yk == (yk * (1 - df)) / (1 - xk)) by (field; lra).
    rewrite R. rewrite (div_le_iff dc (yk * (1 - df)) (1 - xk)) by lra.
    split; [intros H; right; split; assumption | intros [[H _] | [_ H]]; [lra | exact H]].
Qed.

(* membership is antitone in both damages: the region under a decreasing
   curve *)
Lemma inside_mono df dc df' dc' :
  0 <= dc -> df <= df' -> dc <= dc' -> inside xk yk df' dc' = true -> inside xk yk df dc = true.
Proof.
  intros Hdc Hf Hc H. apply inside_spec in H. apply inside_spec.
  destruct H as [[H1 H2] | [H1 H2]].
  - left. split; [lra|].
    assert (A : dc * xk <= dc' * xk) by (apply mul_le_l; lra).
    assert (B : (1 - yk) * df <= (1 - yk) * df').
    { rewrite (Qmult_comm (1 - yk) df), (Qmult_comm (1 - yk) df'). apply mul_le_l; lra. }
    lra.
  - destruct (Qlt_le_dec df xk) as [L | G].
    + left. split; [exact L|].
      (* dc <= dc' <= yk, and the first segment is above yk * xk / xk on [0, xk) *)
      assert (C1 : yk * (1 - df') <= yk * (1 - xk)).
      { rewrite (Qmult_comm yk (1 - df')), (Qmult_comm yk (1 - xk)). apply mul_le_l; lra. }
      assert (C2 : dc' * (1 - xk) <= yk * (1 - xk)) by lra.
      assert (C3 : dc' <= yk).
      { destruct (Qlt_le_dec yk dc') as [X | X]; [|exact X].
        assert (yk * (1 - xk) < dc' * (1 - xk)) by (apply mul_lt_l; lra). lra. }
      assert (C4 : dc * xk <= yk * xk) by (apply mul_le_l; lra).
      assert (C5 : (1 - yk) * df <= (1 - yk) * xk).
      { rewrite (Qmult_comm (1 - yk) df), (Qmult_comm (1 - yk) xk). apply mul_le_l; lra. }
      lra.
    + right. split; [exact G|].
      assert (A : dc * (1 - xk) <= dc' * (1 - xk)) by (apply mul_le_l; lra).
      assert (B : yk * (1 - df') <= yk * (1 - df)).
      { rewrite (Qmult_comm yk (1 - df')), (Qmult_comm yk (1 - df)). apply mul_le_l; lra. }
      lra.
Qed.

(* along a damage ray membership is antitone in the repetition count *)
Theorem inside_ray_antitone f c N N' :
  0 <= f -> 0 <= c -> 0 <= N -> N <= N' ->
  inside xk yk (N' * f) (N' * c) = true -> inside xk yk (N * f) (N * c) = true.
Proof.
  intros Hf Hc HN HNN H. apply (inside_mono (N * f) (N * c) (N' * f) (N' * c)); auto.
  - apply Qmult_le_0_compat; assumption.
  - apply mul_le_l; assumption.
  - apply mul_le_l; assumption.
Qed.

(* ---- the crossing ---------------------------------------------------------- *)
Section Cross.
Variables mf mc : Q.
Hypothesis Hf : 0 <= mf.
Hypothesis Hc : 0 <= mc.
Hypothesis Hpos : 0 < mf + mc.

Let s1 := (1 - yk) / xk.
Let D1 := mc + s1 * mf.
Let n1 := 1 / D1.
Let s2 := yk / (1 - xk).
Let D2 := mc + s2 * mf.

Lemma s1_pos : 0 < s1.
Proof. unfold s1. apply Qlt_shift_div_l; lra. Qed.
Lemma s2_pos : 0 < s2.
Proof. unfold s2. apply Qlt_shift_div_l; lra. Qed.

Lemma D1_pos : 0 < D1.
Proof.
  unfold D1. pose proof s1_pos.
  assert (0 <= s1 * mf) by (apply Qmult_le_0_compat; lra).
  destruct (Qlt_le_dec 0 mf) as [P | Z].
  - assert (0 < s1 * mf) by (apply Qmult_lt_0_compat; assumption). lra.
  - assert (mf == 0) by lra. lra.
Qed.

Lemma D2_pos : 0 < D2.
Proof.
  unfold D2. pose proof s2_pos.
  assert (0 <= s2 * mf) by (apply Qmult_le_0_compat; lra).
  destruct (Qlt_le_dec 0 mf) as [P | Z].
  - assert (0 < s2 * mf) by (apply Qmult_lt_0_compat; assumption). lra.
  - assert (mf == 0) by lra. lra.
Qed.

(* first-segment condition N*mc*xk <= xk - (1-yk) N mf  <=>  N * D1 <= 1 *)
Lemma seg1_iff N : N * mc * xk <= xk - (1 - yk) * (N * mf) <-> N * D1 <= 1.
Proof.
  unfold D1, s1.
  assert (E : N * (mc + (1 - yk) / xk * mf) * xk == N * mc * xk + (1 - yk) * (N * mf)) by (field; lra).
  split; intros H.
  - assert (G : N * (mc + (1 - yk) / xk * mf) * xk <= 1 * xk) by lra.
    destruct (Qlt_le_dec 1 (N * (mc + (1 - yk) / xk * mf))) as [X | X]; [|exact X].
    assert (1 * xk < N * (mc + (1 - yk) / xk * mf) * xk) by (apply mul_lt_l; lra). lra.
  - assert (G : N * (mc + (1 - yk) / xk * mf) * xk <= 1 * xk) by (apply mul_le_l; lra). lra.
Qed.

(* second-segment condition  N*mc*(1-xk) <= yk (1 - N mf)  <=>  N * D2 <= yk + s2 xk *)
Lemma seg2_iff N : N * mc * (1 - xk) <= yk * (1 - N * mf) <-> N * D2 <= yk + s2 * xk.
Proof.
  unfold D2, s2.
  assert (E : N * (mc + yk / (1 - xk) * mf) * (1 - xk) == N * mc * (1 - xk) + yk * (N * mf)) by (field; lra).
  assert (E2 : (yk + yk / (1 - xk) * xk) * (1 - xk) == yk) by (field; lra).
  split; intros H.
  - destruct (Qlt_le_dec (yk + yk / (1 - xk) * xk) (N * (mc + yk / (1 - xk) * mf))) as [X | X]; [|exact X].
    assert ((yk + yk / (1 - xk) * xk) * (1 - xk) < N * (mc + yk / (1 - xk) * mf) * (1 - xk)) by (apply mul_lt_l; lra).
    lra.
  - assert (G : N * (mc + yk / (1 - xk) * mf) * (1 - xk) <= (yk + yk / (1 - xk) * xk) * (1 - xk)) by (apply mul_le_l; lra).
    lra.
Qed.

Lemma n1_D1 : n1 * D1 == 1.
Proof. unfold n1. pose proof D1_pos. field. lra. Qed.

Lemma le_n1_iff N : N <= n1 <-> N * D1 <= 1.
Proof. unfold n1. pose proof D1_pos. apply div_le_iff. assumption. Qed.

(* which segment the ray leaves through: n1*mf < xk  <=>  yk*mf < xk*mc *)
Lemma knee_side : n1 * mf < xk <-> yk * mf < xk * mc.
Proof.
  pose proof D1_pos as P.
  assert (E : n1 * mf == mf / D1) by (unfold n1; field; lra).
  rewrite E.
  assert (F : xk * D1 == xk * mc + (1 - yk) * mf) by (unfold D1, s1; field; lra).
  split; intros H.
  - assert (G : mf / D1 * D1 < xk * D1) by (apply mul_lt_l; assumption).
    assert (G2 : mf / D1 * D1 == mf) by (field; lra). lra.
  - apply Qlt_shift_div_r; [exact P|]. lra.
Qed.

Theorem cross_lump_spec N : 0 <= N ->
  (inside xk yk (N * mf) (N * mc) = true <-> N <= cross_lump xk yk mf mc).
Proof.
  intros HN. rewrite inside_spec. unfold cross_lump. fold s1 D1 n1 s2 D2.
  destruct (Qlt_bool (n1 * mf) xk) eqn:K.
  - (* leaves through the first segment *)
    apply Qlt_bool_iff in K. pose proof (proj1 knee_side K) as KS.
    rewrite le_n1_iff. rewrite <- seg1_iff.
    split.
    + intros [[_ H] | [G H]]; [exact H|]. exfalso.
      (* N mf >= xk and on/below the second segment contradicts yk mf < xk mc *)
      destruct (Qlt_le_dec 0 mf) as [Pm | Zm].
      * assert (A1 : N * mc * (1 - xk) <= yk * (1 - xk)).
        { assert (yk * (1 - N * mf) <= yk * (1 - xk)).
          { rewrite (Qmult_comm yk (1 - N * mf)), (Qmult_comm yk (1 - xk)). apply mul_le_l; lra. }
          lra. }
        assert (A2 : N * mc <= yk).
        { destruct (Qlt_le_dec yk (N * mc)) as [X | X]; [|exact X].
          assert (yk * (1 - xk) < N * mc * (1 - xk)) by (apply mul_lt_l; lra). lra. }
        (* xk * mc <= N mf mc <= yk mf *)
        assert (A3 : xk * mc <= N * mf * mc) by (apply mul_le_l; lra).
        assert (A4 : N * mc * mf <= yk * mf) by (apply mul_le_l; lra).
        assert (A5 : N * mf * mc == N * mc * mf) by ring. lra.
      * assert (mf == 0) by lra. assert (N * mf == 0) by (rewrite H0; ring). lra.
    + intros H. left. split; [|exact H].
      apply seg1_iff in H. apply le_n1_iff in H.
      assert (N * mf <= n1 * mf) by (apply mul_le_l; lra). lra.
  - (* leaves through the second segment *)
    apply Qlt_bool_false in K.
    assert (KS : xk * mc <= yk * mf).
    { destruct (Qlt_le_dec (yk * mf) (xk * mc)) as [X | X]; [|exact X].
      apply knee_side in X. lra. }
    assert (Pm : 0 < mf).
    { destruct (Qlt_le_dec 0 mf) as [X | X]; [exact X|]. assert (Z : mf == 0) by lra.
      rewrite Z in K. assert (n1 * 0 == 0) by ring. lra. }
    pose proof D2_pos as P2.
    rewrite (div_le_iff N (yk + s2 * xk) D2 P2). rewrite <- seg2_iff.
    split.
    + intros [[L H] | [_ H]]; [|exact H].
      (* below the knee: N mf < xk <= n1 mf, so N < n1 and the second-segment form holds too *)
      apply seg1_iff in H.
      (* N mc (1-xk) <= yk (1 - N mf) follows from N mf < xk and xk mc <= yk mf *)
      assert (B1 : N * mf * mc <= xk * mc) by (apply mul_le_l; lra).
      assert (B2 : N * (xk * mc) <= N * (yk * mf)).
      { rewrite (Qmult_comm N (xk * mc)), (Qmult_comm N (yk * mf)). apply mul_le_l; lra. }
      assert (B3 : N * mc * xk <= yk * (N * mf)) by lra.
      assert (B4 : yk * (N * mf) <= yk * xk).
      { rewrite (Qmult_comm yk (N * mf)), (Qmult_comm yk xk). apply mul_le_l; lra. }
      (* N mc = N mc xk + N mc (1-xk); need N mc (1-xk) <= yk - yk N mf *)
      assert (B5 : N * mc * xk <= xk - (1 - yk) * (N * mf)) by (apply seg1_iff; exact H).
      (* from B5: N mc xk + N mf - yk N mf <= xk ; want N mc - N mc xk <= yk - yk N mf *)
      (* use N mc <= yk mf N / xk ... go through cross-multiplied facts *)
      assert (B6 : N * mc * xk * (1 - xk) <= yk * (N * mf) * (1 - xk)) by (apply mul_le_l; lra).
      assert (B7 : yk * (N * mf) * (1 - xk) <= yk * xk * (1 - N * mf)).
      { assert (E : yk * xk * (1 - N * mf) - yk * (N * mf) * (1 - xk) == yk * (xk - N * mf)) by ring.
        assert (0 <= yk * (xk - N * mf)) by (apply Qmult_le_0_compat; lra). lra. }
      assert (B8 : N * mc * (1 - xk) * xk <= yk * (1 - N * mf) * xk).
      { assert (E1 : N * mc * (1 - xk) * xk == N * mc * xk * (1 - xk)) by ring.
        assert (E2 : yk * (1 - N * mf) * xk == yk * xk * (1 - N * mf)) by ring. lra. }
      destruct (Qlt_le_dec (yk * (1 - N * mf)) (N * mc * (1 - xk))) as [X | X]; [|exact X].
      assert (yk * (1 - N * mf) * xk < N * mc * (1 - xk) * xk) by (apply mul_lt_l; lra). lra.
    + intros H.
      destruct (Qlt_le_dec (N * mf) xk) as [L | G]; [|right; split; assumption].
      left. split; [exact L|].
      (* N < xk/mf <= n1 *)
      apply seg1_iff. apply le_n1_iff.
      destruct (Qlt_le_dec n1 N) as [X | X]; [|exact X].
      assert (n1 * mf < N * mf) by (apply mul_lt_l; assumption). lra.
Qed.
End Cross.
End Envelope.
