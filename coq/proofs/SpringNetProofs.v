(* The edge assembly of the spring network as it stands in spring.py and the topology system.py builds
   (coq/gen/SpringNet.v, regenerated from the source on every run) against model/Spring.v. *)
From Coq Require Import QArith List Bool String Arith.
From SV Require Import model.Spring gen.SpringNet.
Import ListNotations.
Open Scope Q_scope.

Lemma gen_fj_is_model f ii jj dii djj : gen_fj f ii jj dii djj = fj f ii jj dii djj.
Proof. reflexivity. Qed.

(* the Jacobian stencil of an edge: k on the diagonal, -k off it (symmetric; returned without the orientation sign,
   which cancels in a product of two) *)
Lemma gen_fj_jacobian_is_symmetric_stencil :
  gen_fj_jacobian = [("J[ii,ii]", "k"); ("J[ii,jj]", "-k"); ("J[jj,ii]", "-k"); ("J[jj,jj]", "k")]%string.
Proof. reflexivity. Qed.

(* residual = internal forces at the free dofs minus the prescribed nodal forces, Jacobian restricted to the free dofs;
   topology: node 0 the root; per panel a manifold node tied to the root by the receiver's connection; per tube a top node
   tied to the manifold by the panel's connection and a bottom node, held at zero, tied to the top by the tube itself;
   numbers become linear springs, "rigid" / "disconnect" stay symbolic, tubes become tube springs *)
Definition expected_network_sources : list (string * string) := [("rj_all_displacements", "dall=np.zeros((len(self.nodes),));dall[self.dmap[self.fixed]]=self.fixed_displacements;dall[self.dmap[self.free]]=d");
  ("rj_sum_forces", "sum((r[0]forrinres))");
  ("rj_sum_jacobian", "sum((r[1]forrinres))");
  ("rj_return", "(Fint[self.dmap[self.free]]-self.forces,J[self.dmap[self.free],:][:,self.dmap[self.free]])");
  ("topology", "cn=0;network.add_node(cn);cn+=1;forpanelinmodel.panels.values():network.add_node(cn)cn+=1network.add_edge(0,cn-1,object=convert_to_spring(model.stiffness,smat,ssolver))top=cn-1fortubeinpanel.tubes.values():network.add_node(cn)cn+=1network.add_edge(top,cn-1,object=convert_to_spring(panel.stiffness,smat,ssolver))network.add_node(cn)cn+=1network.add_edge(cn-2,cn-1,object=convert_to_spring(tube,smat,ssolver))network.displacement_bc(cn-1,lambdat:0.0);network.validate_setup();returnnetwork");
  ("connection_kinds", "isinstance(thing,numbers.Real)=>returnspring.LinearSpring(thing);isinstance(thing,str)=>returnthing;isinstance(thing,receiver.Tube)=>returnspring.TubeSpring(thing,ssolver,smat)")]%string.

Lemma gen_network_sources_are_modelled : gen_network_sources = expected_network_sources.
Proof. reflexivity. Qed.
