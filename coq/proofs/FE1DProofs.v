(* Theorems about the axisymmetric finite-element model (model/FE1D.v), for every
   mesh, quadrature rule and material data. *)
From Coq Require Import QArith Qabs List Bool ZArith Lia Lqa.
From SV Require Import model.FE1D.
Import ListNotations.
Open Scope Q_scope.

Definition zero3 (s : Q * Q * Q) : Prop := let '(a, b, c) := s in a == 0 /\ b == 0 /\ c == 0.

(* a tube that expands freely by the thermal strain c (u = c r, e_zz = c, thermal strain c everywhere)
   carries no stress at any quadrature point ... *)
Lemma gp_stress_free c r0 r1 g d : ~ r1 - r0 == 0 -> ~ r0 + xi g * (r1 - r0) == 0 -> th d == c ->
  zero3 (gp_stress c r0 r1 (c * r0) (c * r1) g d).
Proof.
  intros Hh Hr Ht. unfold gp_stress, zero3.
  assert (Er : (c * r1 - c * r0) / (r1 - r0) == c) by (field; exact Hh).
  assert (Et : ((1 - xi g) * (c * r0) + xi g * (c * r1)) / (r0 + xi g * (r1 - r0)) == c) by (field; exact Hr).
  rewrite Er, Et, Ht. repeat split; ring.
Qed.

(* ... and a stress-free point puts no force on its nodes *)
Lemma gp_force_zero r0 r1 g s : zero3 s -> fst (gp_force r0 r1 g s) == 0 /\ snd (gp_force r0 r1 g s) == 0.
Proof.
  destruct s as [[a b] c]. intros (Ha & Hb & _). unfold gp_force. cbn [fst snd].
  rewrite Ha, Hb. unfold Qdiv. split; ring.
Qed.

Lemma gp_axial_zero r0 r1 g s : zero3 s -> gp_axial r0 r1 g s == 0.
Proof. destruct s as [[a b] c]. intros (_ & _ & Hc). unfold gp_axial. rewrite Hc. ring. Qed.

Lemma sumQ_zero l : Forall (fun x => x == 0) l -> sumQ l == 0.
Proof.
  induction 1 as [|x l Hx _ IH]; [reflexivity|]. change (sumQ (x :: l)) with (x + sumQ l). rewrite Hx, IH. ring.
Qed.

Definition all_zero (l : list Q) : Prop := Forall (fun x => x == 0) l.

Lemma assemble_zero : forall fs prev, prev == 0 -> Forall (fun ab => fst ab == 0 /\ snd ab == 0) fs -> all_zero (assemble prev fs).
Proof.
  induction fs as [|[a b] r IH]; intros prev Hp Hf; cbn [assemble].
  - constructor; [exact Hp | constructor].
  - inversion Hf as [|? ? [Ha Hb] Hr]; subst. cbn [fst snd] in *. constructor.
    + rewrite Hp, Ha. ring.
    + apply IH; assumption.
Qed.

(* mesh hypotheses: increasing radii, quadrature points that do not fall on the axis *)
Fixpoint mesh_ok (gs : list gauss) (rs : list Q) : Prop :=
  match rs with
  | r0 :: ((r1 :: _) as rs') => ~ r1 - r0 == 0 /\ (forall g, In g gs -> ~ r0 + xi g * (r1 - r0) == 0) /\ mesh_ok gs rs'
  | _ => True
  end.

Lemma elem_forces_free c gs : forall rs ds, mesh_ok gs rs -> Forall (Forall (fun d => th d == c)) ds ->
  Forall (fun ab => fst ab == 0 /\ snd ab == 0) (elem_forces c gs rs (map (Qmult c) rs) ds).
Proof.
  induction rs as [|r0 rs IH]; intros ds Hm Hd; [constructor|].
  destruct rs as [|r1 rs']; [cbn; constructor|]. destruct ds as [|d ds']; [cbn; constructor|].
  destruct Hm as (Hh & Hg & Hm'). inversion Hd as [|? ? Hd0 Hd']; subst.
  change (map (Qmult c) (r0 :: r1 :: rs')) with (c * r0 :: c * r1 :: map (Qmult c) rs').
  cbn [elem_forces]. constructor.
  - cbn [fst snd].
    assert (Z : Forall (fun f => fst f == 0 /\ snd f == 0)
                  (map (fun gd => gp_force r0 r1 (fst gd) (gp_stress c r0 r1 (c * r0) (c * r1) (fst gd) (snd gd))) (combine gs d))).
    { apply Forall_forall. intros f Hf. apply in_map_iff in Hf. destruct Hf as ([g dd] & <- & Hin). cbn [fst snd].
      apply gp_force_zero. apply gp_stress_free; [exact Hh | apply Hg; apply (in_combine_l _ _ _ _ Hin) |].
      rewrite Forall_forall in Hd0. apply Hd0. apply (in_combine_r _ _ _ _ Hin). }
    split; apply sumQ_zero; apply Forall_forall; intros x Hx; apply in_map_iff in Hx; destruct Hx as (f & <- & Hf);
      rewrite Forall_forall in Z; destruct (Z f Hf); assumption.
  - apply (IH ds' Hm' Hd').
Qed.

(* free thermal expansion solves the discrete equations exactly: no nodal force anywhere, on any mesh,
   with any quadrature rule and any (positive or not) elastic constants *)
Theorem free_expansion_is_a_discrete_solution c gs rs ds :
  mesh_ok gs rs -> Forall (Forall (fun d => th d == c)) ds ->
  all_zero (internal_force c gs rs (map (Qmult c) rs) ds).
Proof.
  intros Hm Hd. unfold internal_force. apply assemble_zero; [reflexivity | apply elem_forces_free; assumption].
Qed.

(* the two nodal forces of a quadrature point add up to the hoop pull  w h (s_tt - s_rr) / r:
   the derivative part of the form cancels between the two nodes *)
Theorem gp_force_sum r0 r1 g srr stt szz : ~ r1 - r0 == 0 -> ~ r0 + xi g * (r1 - r0) == 0 ->
  fst (gp_force r0 r1 g (srr, stt, szz)) + snd (gp_force r0 r1 g (srr, stt, szz))
  == wt g * (r1 - r0) * (stt - srr) / (r0 + xi g * (r1 - r0)).
Proof. intros Hh Hr. unfold gp_force. cbn [fst snd]. field. split; assumption. Qed.

(* Hooke's law at a quadrature point: the three stresses differ by 2 mu times the strain differences *)
Theorem gp_stress_differences ez r0 r1 u0 u1 g d :
  let '(srr, stt, szz) := gp_stress ez r0 r1 u0 u1 g d in
  let er := (u1 - u0) / (r1 - r0) in
  let et := ((1 - xi g) * u0 + xi g * u1) / (r0 + xi g * (r1 - r0)) in
  srr - stt == 2 * mu d * (er - et) /\ szz - stt == 2 * mu d * (ez - et).
Proof. unfold gp_stress. split; ring. Qed.

(* given stresses: a stress-free state is in equilibrium without pressure *)
Lemma elem_forces_s_zero gs : forall rs ss, Forall (Forall zero3) ss ->
  Forall (fun ab => fst ab == 0 /\ snd ab == 0) (elem_forces_s gs rs ss).
Proof.
  induction rs as [|r0 rs IH]; intros ss Hs; [constructor|].
  destruct rs as [|r1 rs']; [cbn; constructor|]. destruct ss as [|s ss']; [cbn; constructor|].
  inversion Hs as [|? ? Hs0 Hs']; subst. cbn [elem_forces_s]. constructor.
  - cbn [fst snd].
    assert (Z : Forall (fun f => fst f == 0 /\ snd f == 0) (map (fun gd => gp_force r0 r1 (fst gd) (snd gd)) (combine gs s))).
    { apply Forall_forall. intros f Hf. apply in_map_iff in Hf. destruct Hf as ([g x] & <- & Hin). cbn [fst snd].
      apply gp_force_zero. rewrite Forall_forall in Hs0. apply Hs0. apply (in_combine_r _ _ _ _ Hin). }
    split; apply sumQ_zero; apply Forall_forall; intros x Hx; apply in_map_iff in Hx; destruct Hx as (f & <- & Hf);
      rewrite Forall_forall in Z; destruct (Z f Hf); assumption.
  - apply (IH ss' Hs').
Qed.
