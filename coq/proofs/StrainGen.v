(* Facts tying the generated bookkeeping expressions (coq/gen/StrainBook.v,
   regenerated from structural.py on every run) to the model. *)
From Coq Require Import QArith Qabs List Bool ZArith String Lia Lqa.
From SV Require Import model.Strain proofs.StrainProofs gen.StrainBook.
Import ListNotations.
Open Scope Q_scope.

(* the update the code performs on a diagonal entry is the model's step ... *)
Lemma gen_th_step_diagonal a th T0 T1 : gen_th_step 1 th (a T0) (a T1) T0 T1 == th_step a th T0 T1.
Proof. unfold gen_th_step, th_step. field. Qed.

(* ... and an off-diagonal entry is never changed *)
Lemma gen_th_step_offdiagonal th c0 c1 T0 T1 : gen_th_step 0 th c0 c1 T0 T1 == th.
Proof. unfold gen_th_step. field. Qed.

Lemma gen_partition e th : gen_mech e th + th == e.
Proof. unfold gen_mech. ring. Qed.

(* the sub-increments: fractions k/n, ending exactly at the stored step *)
Lemma gen_sf_last cprog inc tprog : ~ tprog == 0 -> cprog + inc == tprog -> gen_sf cprog inc tprog == 1.
Proof. intros H E. unfold gen_sf. rewrite E. field. exact H. Qed.

Lemma gen_T_end T0 T1 : gen_T T0 T1 1 == T1 /\ gen_t T0 T1 1 == T1 /\ gen_dtop T1 1 == T1.
Proof. unfold gen_T, gen_t, gen_dtop. repeat split; ring. Qed.

Lemma gen_T_is_sub_temp n k T0 T1 : gen_T T0 T1 (gen_sf (qnat k) 1 (qnat n)) == T0 + (T1 - T0) * ((qnat k + 1) / qnat n).
Proof. unfold gen_T, gen_sf. reflexivity. Qed.

(* tables of dump_state *)
Definition expected_index (s : string) : option (nat * nat) :=
  if String.eqb s "_xx" then Some (0, 0)%nat else if String.eqb s "_yy" then Some (1, 1)%nat
  else if String.eqb s "_zz" then Some (2, 2)%nat else if String.eqb s "_yz" then Some (1, 2)%nat
  else if String.eqb s "_xz" then Some (0, 2)%nat else if String.eqb s "_xy" then Some (0, 1)%nat else None.

Definition pair_eqb (a b : nat * nat) : bool := Nat.eqb (fst a) (fst b) && Nat.eqb (snd a) (snd b).

Definition dump_tables_ok : bool :=
  Nat.eqb (List.length dump_order) 6 && Nat.eqb (List.length dump_inds) 6 &&
  forallb (fun oi => match expected_index (fst oi) with Some p => pair_eqb p (snd oi) | None => false end) (combine dump_order dump_inds) &&
  forallb (fun s => existsb (String.eqb s) dump_order) ["_xx"; "_yy"; "_zz"; "_yz"; "_xz"; "_xy"]%string &&
  Nat.eqb (List.length dump_fields) (List.length dump_data) &&
  forallb (fun fd => String.eqb (snd fd) ("state." ++ fst fd)) (combine dump_fields dump_data) &&
  forallb (fun s => existsb (String.eqb s) dump_fields) ["stress"; "strain"; "mechanical_strain"; "thermal_strain"]%string.

(* every array a state owns is hard-copied by State.copy, so a trial solve cannot
   reach back into the state it started from *)
Definition copy_complete : bool := forallb (fun a => existsb (String.eqb a) state_copied) state_arrays.
