(* How far the discrete steady radial profile is from the logarithmic one.
   The discrete solution climbs by G / r_mid across a cell (C13_steady_profile),
   the exact one by (G / dr) ln(r_out / r_in) = (G / dr) ln((1 + x) / (1 - x)) with
   x = dr / (2 r_mid).  Per cell the two differ by a relative x^2/3 at least and
   x^2 / (3 (1 - x^2)) at most: second order in dr / r.  Classical reals. *)
From Coq Require Import Reals Lra.
From Coquelicot Require Import Coquelicot.
Open Scope R_scope.

Definition Lg (x : R) : R := ln ((1 + x) / (1 - x)).

Lemma nondecreasing_from_zero (f df : R -> R) (b : R) :
  0 <= b -> (forall z, 0 <= z <= b -> is_derive f z (df z)) -> (forall z, 0 <= z <= b -> 0 <= df z) -> f 0 <= f b.
Proof.
  intros Hb Hd Hp.
  destruct (MVT_gen f 0 b df) as (c & Hc & E).
  - intros z Hz. apply Hd. rewrite Rmin_left, Rmax_right in Hz by lra. lra.
  - intros z Hz. rewrite Rmin_left, Rmax_right in Hz by lra.
    apply derivable_continuous_pt. exists (df z). apply is_derive_Reals. apply Hd. lra.
  - rewrite Rmin_left, Rmax_right in Hc by lra.
    assert (0 <= df c * (b - 0)) by (apply Rmult_le_pos; [apply Hp; lra | lra]). lra.
Qed.

Lemma Lg_derive z : 0 <= z < 1 -> is_derive Lg z (2 / (1 - z * z)).
Proof.
  intros Hz. unfold Lg. auto_derive.
  - split; [lra | split; [|exact I]]. apply Rmult_lt_0_compat; [lra | apply Rinv_0_lt_compat; lra].
  - field. repeat split; try lra; apply Rgt_not_eq; nra.
Qed.

Theorem Lg_lower x : 0 <= x < 1 -> 2 * x + 2 / 3 * (x * x * x) <= Lg x.
Proof.
  intros Hx.
  pose (f := fun z => Lg z - 2 * z - 2 / 3 * (z * z * z)).
  pose (df := fun z => 2 / (1 - z * z) - 2 - 2 * (z * z)).
  assert (H : f 0 <= f x).
  { apply (nondecreasing_from_zero f df x); [lra | |].
    - intros z Hz. unfold f, df. auto_derive; [apply (ex_intro _ _ (Lg_derive z ltac:(lra)))|].
      assert (DL : Derive (fun x0 => Lg x0) z = 2 / (1 - z * z)) by (apply is_derive_unique; apply Lg_derive; lra).
      rewrite DL. field. repeat split; try lra; apply Rgt_not_eq; nra.
    - intros z Hz. unfold df.
      assert (P : 0 < 1 - z * z) by nra.
      assert (E : 2 / (1 - z * z) - 2 - 2 * (z * z) = 2 * (z * z * (z * z)) / (1 - z * z)) by (field; lra).
      rewrite E. apply Rmult_le_pos; [nra | left; apply Rinv_0_lt_compat; exact P]. }
  unfold f, Lg in H. replace ((1 + 0) / (1 - 0)) with 1 in H by field. rewrite ln_1 in H. unfold Lg. lra.
Qed.

Theorem Lg_upper x : 0 <= x < 1 -> Lg x <= 2 * x + 2 / 3 * (x * x * x) / (1 - x * x).
Proof.
  intros Hx.
  pose (f := fun z => 2 * z + 2 / 3 * (z * z * z) / (1 - z * z) - Lg z).
  pose (df := fun z => 4 / 3 * (z * z * (z * z)) / ((1 - z * z) * (1 - z * z))).
  assert (H : f 0 <= f x).
  { apply (nondecreasing_from_zero f df x); [lra | |].
    - intros z Hz. assert (P : 0 < 1 - z * z) by nra. unfold f, df.
      auto_derive; [split; [lra | split; [apply (ex_intro _ _ (Lg_derive z ltac:(lra))) | exact I]]|].
      assert (DL : Derive (fun x0 => Lg x0) z = 2 / (1 - z * z)) by (apply is_derive_unique; apply Lg_derive; lra).
      rewrite DL. field. repeat split; try lra; apply Rgt_not_eq; nra.
    - intros z Hz. assert (P : 0 < 1 - z * z) by nra. unfold df.
      apply Rmult_le_pos; [nra | left; apply Rinv_0_lt_compat; nra]. }
  unfold f, Lg in H. replace ((1 + 0) / (1 - 0)) with 1 in H by field. rewrite ln_1 in H. unfold Lg.
  replace (2 / 3 * (0 * 0 * 0) / (1 - 0 * 0)) with 0 in H by field. lra.
Qed.

(* the climb across one cell: discrete G / r_mid against exact (G / dr) ln(r_out / r_in) *)
Theorem cell_climb_second_order G dr rmid :
  0 < dr -> dr / 2 < rmid -> 0 <= G ->
  let x := dr / (2 * rmid) in
  let discrete := G / rmid in
  let exact := G / dr * ln ((rmid + dr / 2) / (rmid - dr / 2)) in
  discrete * (1 + x * x / 3) <= exact <= discrete * (1 + x * x / (3 * (1 - x * x))).
Proof.
  intros Hd Hr HG x discrete exact.
  assert (Hx : 0 <= x < 1).
  { unfold x. split; [apply Rmult_le_pos; [lra | left; apply Rinv_0_lt_compat; lra]|].
    apply (Rmult_lt_reg_r (2 * rmid)); [lra|]. unfold Rdiv. rewrite Rmult_assoc, Rinv_l by lra. lra. }
  assert (Hx0 : 0 < x) by (unfold x; apply Rdiv_lt_0_compat; lra).
  assert (E : (rmid + dr / 2) / (rmid - dr / 2) = (1 + x) / (1 - x)) by (unfold x; field; lra).
  assert (D : discrete = G / dr * (2 * x)) by (unfold discrete, x; field; lra).
  assert (Gd : 0 <= G / dr) by (apply Rmult_le_pos; [exact HG | left; apply Rinv_0_lt_compat; exact Hd]).
  unfold exact. rewrite E. fold (Lg x). pose proof (Lg_lower x Hx) as Lo. pose proof (Lg_upper x Hx) as Up.
  assert (P : 0 < 1 - x * x) by nra.
  split.
  - rewrite D. replace (G / dr * (2 * x) * (1 + x * x / 3)) with (G / dr * (2 * x + 2 / 3 * (x * x * x))) by (field; lra).
    apply Rmult_le_compat_l; assumption.
  - rewrite D. replace (G / dr * (2 * x) * (1 + x * x / (3 * (1 - x * x)))) with (G / dr * (2 * x + 2 / 3 * (x * x * x) / (1 - x * x))) by (field; lra).
    apply Rmult_le_compat_l; assumption.
Qed.
