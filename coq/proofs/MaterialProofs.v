(* Facts about the shipped material data (coq/gen/MaterialData.v, regenerated
   from /repo/srlife/data on every run) and about the look-up logic. *)
From Coq Require Import QArith Qabs List Bool String Lia Lqa.
From SV Require Import model.Interp proofs.InterpProofs model.Life proofs.LifeProofs model.Materials gen.MaterialData.
Import ListNotations.

(* ---- tabulated models ---------------------------------------------------------------- *)
Definition positiveb (l : list Q) : bool := forallb (fun y => negb (Qle_bool y 0)) l.

Definition table_ok (t : string * list Q * list Q) : bool :=
  let '(_, xs, ys) := t in
  increasingb xs && positiveb ys && Nat.eqb (List.length xs) (List.length ys) && Nat.leb 2 (List.length xs).

Lemma tables_positive_increasing : forallb table_ok pw_tables = true.
Proof. vm_compute. reflexivity. Qed.

Lemma scalars_positive : forallb (fun s => negb (Qle_bool (snd s) 0)) pos_scalars = true.
Proof. vm_compute. reflexivity. Qed.

(* a piecewise-linear interpolant of positive data over an increasing grid is
   positive everywhere between the first and the last abscissa *)
Lemma cell_exists xs : increasing xs -> (2 <= List.length xs)%nat ->
  forall x, (nth 0 xs 0 <= x <= last xs 0)%Q ->
  exists i, (S i < List.length xs)%nat /\ (nth i xs 0 <= x <= nth (S i) xs 0)%Q.
Proof.
  induction xs as [|x0 xs IH]; intros Hinc Hlen x Hx; [cbn in Hlen; lia|].
  destruct xs as [|x1 xr]; [cbn in Hlen; lia|].
  destruct xr as [|x2 xr'].
  - exists 0%nat. cbn [nth last List.length] in *. split; [lia | lra].
  - destruct (Qlt_le_dec x1 x) as [G | L].
    + destruct Hinc as [_ Hinc].
      destruct (IH Hinc ltac:(cbn; lia) x) as (i & Hi & Hc).
      * change (last (x0 :: x1 :: x2 :: xr') 0) with (last (x1 :: x2 :: xr') 0) in Hx.
        cbn [nth] in *. split; [lra | exact (proj2 Hx)].
      * exists (S i). split; [cbn [List.length] in *; lia | exact Hc].
    + exists 0%nat. cbn [nth] in *. split; [cbn; lia | lra].
Qed.

Theorem piecewise_positive xs ys x :
  increasing xs -> List.length ys = List.length xs -> (2 <= List.length xs)%nat ->
  (forall y, In y ys -> (0 < y)%Q) ->
  (nth 0 xs 0 <= x <= last xs 0)%Q -> (0 < interp1 xs ys x)%Q.
Proof.
  intros Hinc Hlen H2 Hpos Hx.
  destruct (cell_exists xs Hinc H2 x Hx) as (i & Hi & Hc).
  destruct (interp1_between xs ys i x Hinc Hlen Hi Hc) as [Lo _].
  assert (A : (0 < nth i ys 0)%Q) by (apply Hpos; apply nth_In; lia).
  assert (B : (0 < nth (S i) ys 0)%Q) by (apply Hpos; apply nth_In; lia).
  assert (M : (0 < Qminmax.Qmin (nth i ys 0) (nth (S i) ys 0))%Q) by (apply Qminmax.Q.min_glb_lt; assumption).
  lra.
Qed.

(* tabulated models return the table value at a table point *)
Definition table_exact := interp1_grid_exact.

(* ---- envelopes --------------------------------------------------------------------------- *)
Definition envelope_ok (e : string * Q * Q) : bool :=
  let '(_, xk, yk) := e in
  negb (Qle_bool xk 0) && negb (Qle_bool 1 xk) && negb (Qle_bool yk 0) && negb (Qle_bool 1 yk)
  && inside xk yk 0 1 && inside xk yk xk yk && inside xk yk 1 0
  && negb (inside xk yk 0 (1 + (1 # 1000000))) && negb (inside xk yk xk (yk + (1 # 1000000)))
  && negb (inside xk yk 1 (1 # 1000000)).

Lemma envelopes_through_points : forallb envelope_ok envelopes = true.
Proof. vm_compute. reflexivity. Qed.

(* for every admissible knee the envelope passes through (0,1), the knee and (1,0) *)
Theorem envelope_points xk yk : (0 < xk < 1)%Q -> (0 < yk < 1)%Q ->
  inside xk yk 0 1 = true /\ inside xk yk xk yk = true /\ inside xk yk 1 0 = true /\
  (forall e, (0 < e)%Q -> inside xk yk 0 (1 + e) = false /\ inside xk yk xk (yk + e) = false /\ inside xk yk 1 e = false).
Proof.
  intros Hx Hy.
  assert (S := inside_spec xk yk Hx).
  repeat split.
  - apply S. left. split; lra.
  - apply S. right. split; [lra|]. assert (yk * (1 - xk) == yk * (1 - xk))%Q by reflexivity. lra.
  - apply S. right. split; [lra|]. assert (E : (yk * (1 - 1) == 0)%Q) by ring. rewrite E. lra.
  - destruct (inside xk yk 0 (1 + e)) eqn:E; [|reflexivity]. apply S in E.
    destruct E as [[_ E] | [E _]]; [|lra].
    assert (X : ((1 + e) * xk == xk + e * xk)%Q) by ring. assert (0 < e * xk)%Q by (apply Qmult_lt_0_compat; lra).
    assert (Y : ((1 - yk) * 0 == 0)%Q) by ring. lra.
  - destruct (inside xk yk xk (yk + e)) eqn:E; [|reflexivity]. apply S in E.
    destruct E as [[E _] | [_ E]]; [lra|].
    assert (X : ((yk + e) * (1 - xk) == yk * (1 - xk) + e * (1 - xk))%Q) by ring.
    assert (0 < e * (1 - xk))%Q by (apply Qmult_lt_0_compat; lra). lra.
  - destruct (inside xk yk 1 e) eqn:E; [|reflexivity]. apply S in E.
    destruct E as [[E _] | [_ E]]; [lra|].
    assert (X : (yk * (1 - 1) == 0)%Q) by ring. assert (0 < e * (1 - xk))%Q by (apply Qmult_lt_0_compat; lra). lra.
Qed.

(* ---- fatigue curve selection --------------------------------------------------------------- *)
(* below the selected curve's cut-off the evaluated strain range is that cut-off
   (cycles to failure stay constant there), above it the range itself *)
Lemma select_curve_spec curves : forall temp erange i j e,
  select_curve curves temp erange i = Some (j, e) ->
  exists T cut, nth_error curves (j - i) = Some (T, cut) /\ (i <= j)%nat /\ (temp <= T)%Q /\
    (forall k T' c', (k < j - i)%nat -> nth_error curves k = Some (T', c') -> (T' < temp)%Q) /\
    ((erange <= cut)%Q /\ e = cut \/ (cut < erange)%Q /\ e = erange).
Proof.
  induction curves as [|[T cut] r IH]; intros temp erange i j e H; cbn [select_curve] in H; [discriminate|].
  destruct (Qle_bool temp T) eqn:E.
  - inversion H; subst. exists T, cut. rewrite Nat.sub_diag. cbn. repeat split; auto.
    + apply Qle_bool_iff. exact E.
    + intros k T' c' Hk. lia.
    + destruct (Qle_bool erange cut) eqn:C; [left | right]; split; auto.
      * apply Qle_bool_iff. exact C.
      * apply Qnot_le_lt. intros X. apply Qle_bool_iff in X. congruence.
  - apply IH in H. destruct H as (T' & cut' & Hn & Hij & Ht & Hprev & Hc).
    exists T', cut'. replace (j - i)%nat with (S (j - S i)) by lia. cbn [nth_error]. repeat split; auto; try lia.
    intros k T'' c'' Hk Hnk. destruct k as [|k]; cbn [nth_error] in Hnk.
    + inversion Hnk; subst. apply Qnot_le_lt. intros X. apply Qle_bool_iff in X. congruence.
    + apply (Hprev k T'' c''); [lia | exact Hnk].
Qed.

(* ---- XML trees ---------------------------------------------------------------------------------- *)
Lemma lookup_rev_nodup k l : NoDup (map fst l) -> lookup k (rev l) = lookup k l.
Proof.
  induction l as [|[k0 v0] r IH]; intros ND; [reflexivity|].
  cbn [map fst] in ND. inversion ND as [|? ? Hnin ND']; subst.
  cbn [rev lookup].
  assert (A : forall a b, lookup k (a ++ b) = match lookup k a with Some v => Some v | None => lookup k b end).
  { induction a as [|[ka va] a IHa]; intros b; [reflexivity|]. cbn [app lookup]. destruct (String.eqb k ka); auto. }
  rewrite A, (IH ND'). cbn [lookup].
  destruct (String.eqb_spec k k0) as [-> | NE].
  - assert (lookup k0 r = None).
    { clear - Hnin. induction r as [|[k1 v1] r IHr]; [reflexivity|]. cbn [lookup map fst] in *.
      destruct (String.eqb_spec k0 k1) as [-> | NE]; [exfalso; apply Hnin; left; reflexivity|].
      apply IHr. intros X. apply Hnin. right. exact X. }
    rewrite H. reflexivity.
  - destruct (lookup k r); reflexivity.
Qed.

(* reading a serialised dictionary back gives, for every key, the entry that was written *)
Theorem xml_roundtrip_lookup k ch :
  NoDup (map fst ch) ->
  match load_tree (Node ch) with
  | Node ch' => lookup k ch' = option_map load_tree (lookup k ch)
  | Leaf _ => False
  end.
Proof.
  intros ND. cbn [load_tree].
  rewrite lookup_rev_nodup.
  - induction ch as [|[k0 v0] r IH]; [reflexivity|]. cbn [map lookup fst snd].
    destruct (String.eqb k k0); [reflexivity|]. apply IH. cbn [map fst] in ND. inversion ND; assumption.
  - rewrite map_map. cbn [fst]. exact ND.
Qed.
