(* The finite-difference equations as they stand in thermal.py (coq/gen/ThermalStencil.v, regenerated from the source on
   every run: the three diagonals of each direction read at the row's own index, the system of solve_step, the ghost
   rows of both walls) are the equations of model/Thermal.v, at every real node and wall node. *)
From Coq Require Import QArith List Bool Lia Lqa String.
From SV Require Import model.Thermal gen.ThermalStencil.
Import ListNotations.
Open Scope Q_scope.

Lemma S_pred i : (1 <= i)%nat -> S (pred i) = i.
Proof. lia. Qed.

Section Rows.
Variables (c : cfg) (T0 T : field) (i j k : nat).
Hypothesis Hi : (1 <= i)%nat.
Hypothesis Hr : ~ rad c i == 0.
Hypothesis Hdr : ~ dr c == 0.

Lemma gen_radial_row_is_model : gen_radial_row c 1 T i j k == L_r c T i j k.
Proof.
  unfold gen_radial_row, gen_rad_sub, gen_rad_diag, gen_rad_sup, L_r, g_r, rh, ch_r.
  rewrite (S_pred i Hi). field. split; assumption.
Qed.

Lemma gen_circ_row_is_model : has_t c = true -> (1 <= j)%nat -> ~ dth c == 0 -> gen_circ_row c 1 T i j k == L_t c T i j k.
Proof.
  intros Ht Hj Hd. unfold gen_circ_row, gen_circ_sub, gen_circ_diag, gen_circ_sup, L_t, g_t, ch_t. rewrite Ht.
  rewrite (S_pred j Hj). field. split; assumption.
Qed.

Lemma gen_axial_row_is_model : has_z c = true -> (1 <= k)%nat -> ~ dz c == 0 -> gen_axial_row c 1 T i j k == L_z c T i j k.
Proof.
  intros Hz Hk Hd. unfold gen_axial_row, gen_ax_sub, gen_ax_diag, gen_ax_sup, L_z, g_z, ch_z. rewrite Hz.
  rewrite (S_pred k Hk). field. exact Hd.
Qed.

Hypothesis Hj : has_t c = true -> (1 <= j)%nat /\ ~ dth c == 0.
Hypothesis Hk : has_z c = true -> (1 <= k)%nat /\ ~ dz c == 0.

Lemma gen_A_row_is_model : gen_A_row c 1 T i j k == Lap c T i j k.
Proof.
  unfold gen_A_row, Lap. rewrite gen_radial_row_is_model.
  assert (E1 : (if has_t c then gen_circ_row c 1 T i j k else 0) == L_t c T i j k).
  { destruct (has_t c) eqn:Ht.
    - destruct (Hj eq_refl) as [A B]. apply gen_circ_row_is_model; assumption.
    - unfold L_t. rewrite Ht. reflexivity. }
  assert (E2 : (if has_z c then gen_axial_row c 1 T i j k else 0) == L_z c T i j k).
  { destruct (has_z c) eqn:Hz.
    - destruct (Hk eq_refl) as [A B]. apply gen_axial_row_is_model; assumption.
    - unfold L_z. rewrite Hz. reflexivity. }
  rewrite E1, E2. reflexivity.
Qed.

(* row of M T - R of solve_step at a real node (act = 1, no volumetric source) = the model's node residual *)
Lemma gen_node_row_is_model : gen_node_row c 1 T0 T i j k == res_node c T0 T i j k.
Proof.
  unfold gen_node_row, res_node. destruct (steady c); rewrite gen_A_row_is_model; ring.
Qed.
End Rows.

(* ghost rows of the two walls, per kind of wall condition *)
Lemma gen_inner_rows_are_model (c : cfg) (T : field) (j k : nat) : ~ kk c 1%nat j k == 0 ->
  match inner c with
  | Ins => gen_inner_ins c T j k
  | Fixed g => gen_inner_fixed c T g j k
  | Flux q => gen_inner_flux c T q j k
  | Conv h tf => gen_inner_conv c T h tf j k
  end == res_inner c T j k.
Proof.
  intros Hk. unfold res_inner. destruct (inner c) as [|g|q|h tf].
  - unfold gen_inner_ins. ring.
  - unfold gen_inner_fixed. ring.
  - unfold gen_inner_flux. field. exact Hk.
  - unfold gen_inner_conv. field. exact Hk.
Qed.

Lemma gen_outer_rows_are_model (c : cfg) (T : field) (j k : nat) : ~ kk c (nr c) j k == 0 ->
  match outer c with
  | Ins => gen_outer_ins c T j k
  | Fixed g => gen_outer_fixed c T g j k
  | Flux q => gen_outer_flux c T q j k
  | Conv h tf => gen_outer_conv c T h tf j k
  end == res_outer c T j k.
Proof.
  intros Hk. unfold res_outer. destruct (outer c) as [|g|q|h tf].
  - unfold gen_outer_ins. ring.
  - unfold gen_outer_fixed. ring.
  - unfold gen_outer_flux. field. exact Hk.
  - unfold gen_outer_conv. field. exact Hk.
Qed.

(* the code's whole system  M T - R = 0  (real-node rows, wall ghost rows, periodic and axial ghost rows) is the
   proposition Eqs of the model, on a non-degenerate grid *)
Definition wall_inner_row (c : cfg) (T : field) (j k : nat) : Q :=
  match inner c with
  | Ins => gen_inner_ins c T j k | Fixed g => gen_inner_fixed c T g j k
  | Flux q => gen_inner_flux c T q j k | Conv h tf => gen_inner_conv c T h tf j k
  end.
Definition wall_outer_row (c : cfg) (T : field) (j k : nat) : Q :=
  match outer c with
  | Ins => gen_outer_ins c T j k | Fixed g => gen_outer_fixed c T g j k
  | Flux q => gen_outer_flux c T q j k | Conv h tf => gen_outer_conv c T h tf j k
  end.

Definition grid_ok (c : cfg) : Prop :=
  (forall i, In i (irange c) -> ~ rad c i == 0) /\ ~ dr c == 0 /\
  (has_t c = true -> ~ dth c == 0) /\ (has_z c = true -> ~ dz c == 0) /\
  (forall j k, ~ kk c 1%nat j k == 0 /\ ~ kk c (nr c) j k == 0).

Definition code_system (c : cfg) (T0 T : field) : Prop :=
  (forall i j k, In i (irange c) -> In j (jrange c) -> In k (krange c) -> gen_node_row c 1 T0 T i j k == 0) /\
  (forall j k, In j (jrange c) -> In k (krange c) -> wall_inner_row c T j k == 0 /\ wall_outer_row c T j k == 0) /\
  (has_t c = true -> forall i k, In i (irange c) -> In k (krange c) -> gen_left_row c T i k == 0 /\ gen_right_row c T i k == 0) /\
  (has_z c = true -> forall i j, In i (irange c) -> In j (jrange c) -> gen_top_row c T i j == 0 /\ gen_bot_row c T i j == 0).

Lemma in_seq1 n x : In x (seq 1 n) -> (1 <= x)%nat.
Proof. intros H. apply in_seq in H. lia. Qed.

Theorem code_system_is_model_equations c T0 T : grid_ok c -> (code_system c T0 T <-> Eqs c T0 T).
Proof.
  intros (Hrad & Hdr & Hth & Hz & Hkk).
  assert (Node : forall i j k, In i (irange c) -> In j (jrange c) -> In k (krange c) ->
                 gen_node_row c 1 T0 T i j k == res_node c T0 T i j k).
  { intros i j k Hi Hj Hk. apply gen_node_row_is_model.
    - apply in_seq1 with (n := nr c). exact Hi.
    - apply Hrad. exact Hi.
    - exact Hdr.
    - intros Ht. split; [|apply Hth; exact Ht]. unfold jrange in Hj. rewrite Ht in Hj. apply in_seq1 with (n := nt c). exact Hj.
    - intros Hzz. split; [|apply Hz; exact Hzz]. unfold krange in Hk. rewrite Hzz in Hk. apply in_seq1 with (n := nz c). exact Hk. }
  assert (Win : forall j k, wall_inner_row c T j k == res_inner c T j k).
  { intros j k. apply gen_inner_rows_are_model. apply Hkk. }
  assert (Wout : forall j k, wall_outer_row c T j k == res_outer c T j k).
  { intros j k. apply gen_outer_rows_are_model. apply Hkk. }
  unfold code_system, Eqs. split.
  - intros (A & B & C & D). repeat split.
    + intros i j k Hi Hj Hk. rewrite <- Node by assumption. apply A; assumption.
    + rewrite <- Win. apply (B j k); assumption.
    + rewrite <- Wout. apply (B j k); assumption.
    + destruct (C H i k H0 H1) as [L _]. unfold gen_left_row in L. lra.
    + destruct (C H i k H0 H1) as [_ R]. unfold gen_right_row in R. lra.
    + destruct (D H i j H0 H1) as [L _]. unfold gen_top_row in L. lra.
    + destruct (D H i j H0 H1) as [_ R]. unfold gen_bot_row in R. lra.
  - intros (A & B & C & D). repeat split.
    + intros i j k Hi Hj Hk. rewrite Node by assumption. apply A; assumption.
    + rewrite Win. apply (B j k); assumption.
    + rewrite Wout. apply (B j k); assumption.
    + destruct (C H i k H0 H1) as [L _]. unfold gen_left_row. lra.
    + destruct (C H i k H0 H1) as [_ R]. unfold gen_right_row. lra.
    + destruct (D H i j H0 H1) as [L _]. unfold gen_top_row. lra.
    + destruct (D H i j H0 H1) as [_ R]. unfold gen_bot_row. lra.
Qed.

(* the coefficient table is the conductivity in steady mode and the diffusivity otherwise; sub-steps chain
   solve_step over equal parts of the step ending at the target time *)
Lemma gen_step_sources_are_modelled :
  gen_step_sources = [("coefficient_steady", "self.c=self.k"); ("coefficient_transient", "self.c=self.a");
                      ("conductivity", "self.material.conductivity(T).reshape(self.fdim)");
                      ("substep_start", "time-dt"); ("substep_length", "dt/self.substep"); ("substep_time", "t_n+dti*i");
                      ("substep_chain", "self.solve_step(T,t,dti)"); ("substep_range", "range(1,self.substep+1)");
                      ("dof", "i*self.nt*self.nz+j*self.nz+k");
                      ("ghost_rows", "M=self._ID_BC()+self._OD_BC();ifself.ndim>1:M+=self._left_BC()+self._right_BC();ifself.ndim>2:M+=self._top_BC()+self._bot_BC();returnM");
                      ("axial_rhs", "self.ndim>2")]%string.
Proof. reflexivity. Qed.
