#!/bin/sh
# Build the Coq development from files on disk (offline).
set -e
HERE="$(cd "$(dirname "$0")" && pwd)"
cd "$HERE/coq"
mkdir -p gen ../out/scratch ../evidence
# generated models are produced from /repo by the translators
cd "$HERE" && PYTHONPATH="$HERE" /venv/bin/python -m harness.gen_all || exit 1
cd "$HERE/coq"
coq_makefile -f _CoqProject -o Makefile.coq > /dev/null
ulimit -s unlimited 2>/dev/null || true
timeout 3000 make -f Makefile.coq -j16
